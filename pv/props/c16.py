"""C16 - a remote http(s) check allows only on an explicit True from the server.

Wire-level monitor: requests_mock replaces the transport adapter only, so the
real `requests` encoding runs; every recorded request is decoded and compared
with what the statement says must be sent; reply bodies, status codes and
injected transport / TLS-file faults are enumerated around the accepted form."""
import copy
import json
import os
import re
import tempfile
import urllib.parse
import zlib

import requests
import requests_mock

from pv.core import env

ID = 'C16'
LEVEL = 'fault_enumeration'
TECHNIQUE = ('wire-level runtime monitor with requests_mock (real requests encoding): reply-body / status / fault '
             'enumeration, recorded-request oracle, deep snapshot of the caller\'s target; fault sequences on a living enforcer; overlapping requests under a deterministic line-level thread scheduler (sys.monitoring)')
RULE = ('cases = reply body from an alphabet around the accepted form (True, "True", true, TRUE, quotes unbalanced or '
        'repeated, whitespace, JSON true, empty, 1 MB, undecodable bytes) x HTTP status (2xx-5xx) x fault (none, '
        'ConnectTimeout, ReadTimeout, ConnectionError, SSLError, missing client cert / key / CA file) x content type '
        '(form / JSON) x http / https x the check at depth 0-5 under and/or/not/rule: x policy name x URL placeholders x '
        'targets with nested values, secret-looking keys (with the debug logging of the library on or off) and opaque objects (top level; below the top level only the target-left-unmodified clause is judged). in the random stratum the content-type option may be changed on the living enforcer before a second request; B = the full body x status x content-type x scheme '
        'product at depth 0; R = random combinations. Non-trivial = the body is not exactly True / "True" (must deny) or a '
        'fault is injected; distinct = distinct case. Stratum `overlap`: two requests reach two remote checks of one enforcer at the same time (second one runs at sampled line boundaries of the first, deterministic scheduler); the stub server answers True only to a self-consistent request, so anything leaking from one request into the other changes a decision. '
        'Stratum S (fault sequences): 3-7 evaluations of one rule on ONE living enforcer; between the calls a configured client cert / key / CA '
        'file is deleted or (re-)created, a remote_ssl_* option is pointed at another (present / missing) file or cleared, transport faults come '
        'and go (ok, fault, ok ... and fault, ok, fault ...; enumerated for each file and each transport fault, plus random ones); every call is '
        'judged by the same per-call oracle from the state of the world at that call alone: configured file missing now => RuntimeError and no '
        'request, transport fault now => raises, otherwise one correct request and the decision by the body. '
        'Stratum K (keys shared by target and credentials; woven into B, R, S and overlap): the target and the credentials - a dict or an '
        'oslo.context RequestContext, whose policy values always carry project_id, user_id, domain_id, roles ... - have keys in common with '
        'DIFFERENT values, and the URL placeholders range over keys found in the target only, in both, and (rarely) in the credentials only; '
        'the recorded request must have gone to the template filled from the TARGET (the overlap stub server compares every URL segment with '
        'the target that the payload carries); a placeholder that the target cannot fill is left unconstrained. '
        'Stratum I (indirections of enforce): the remote check is reached through the default rule standing in for an enforced name that is '
        'defined nowhere, through a rule: reference to an undefined name that ends at the default rule, through the rule of the enforced name '
        'while an unrelated default rule exists, or as a check object handed to enforce - each behind 0-3 rule: aliases and under and/or/not, '
        'with the default rule named `default` (built-in), by Enforcer(default_rule=<name>), by policy_default_rule, or given as a check object, '
        'and the rules put in by set_rules, a policy file or registered defaults, in both encodings with and without debug logging; the same '
        'per-call oracle: `rule` in the request is the name given to enforce() (left unconstrained for a check object, which has no name).')
ASSUMPTIONS = ['bodies with unbalanced or repeated surrounding quotes ("True, True", ""True"") are driven and recorded but '
               'left unconstrained: "ignoring surrounding double quotes" can be read either way',
               'running as root, "file exists but unreadable" cannot be produced (os.access always succeeds): not simulated',
               'opaque objects are generated at the top level of the target only',
               'in the sequence stratum remote_ssl_verify_server_crt stays True (whether a CA file that is configured but not used for '
               'verification must exist is not said by the statement) and an option that is cleared is taken as "no file configured"',
               'a URL placeholder whose key is not in the target (for instance a key of the credentials only) cannot be "filled from the target": '
               'what the call does then (the library raises KeyError) is driven and recorded but left unconstrained, except that the caller\'s target '
               'must be left alone',
               'the credentials of a RequestContext are taken to be its to_policy_values(): each of them must reach the server unchanged; further '
               'keys next to them are left unconstrained',
               'a check OBJECT handed to enforce() has no policy name: what the request carries as `rule` then (the library sends null) is '
               'recorded but left unconstrained; URL, target, credentials, encoding and decision are judged as usual',
               'that a name defined nowhere (enforced, or referred to by rule:) is evaluated by the default rule is the documented behaviour '
               'of the rule store; stratum I relies on it to reach the remote check']
LEVEL_TEXT = ('The body/status/content-type/scheme product and every listed fault are enumerated completely at depth 0 and '
              'sampled at depth; the recorded request is checked on every call. Fault enumeration is the level: the property is '
              'about what happens for each reply and each transport failure.')
LEVEL_NOTE = 'trusted: requests_mock as the transport; the request decoder in the harness'
PLAN = {'quick': dict(shards=4, wall=120), 'thorough': dict(shards=16, wall=400)}
MIN = {'overlapping_evaluations': 200, 'evaluations': 800, 'requests_recorded': 500, 'deny_bodies': 300, 'allow_bodies': 50, 'faults_injected': 100,
       'tls_file_faults': 20, 'content_type_changes_on_living_enforcer': 100, 'requests_under_debug_logging': 200, 'nested_opaque_targets': 50,
       'sequence_calls': 400, 'sequence_tls_file_missing_after_a_sent_request': 60, 'sequence_clean_call_after_a_fault': 100,
       'sequence_option_repoints': 40, 'sequence_tls_file_faults': 80, 'sequence_requests_recorded': 150,
       'url_placeholders_in_target_and_credentials': 400, 'url_placeholders_shared_with_context_credentials': 200,
       'sequence_url_placeholders_in_target_and_credentials': 80, 'sequence_url_placeholders_shared_with_context_credentials': 40,
       'overlap_requests_with_url_keys_shared_by_target_and_credentials': 1000, 'url_placeholders_not_in_target': 30,
       'indirect_requests_recorded': 150, 'indirect_requests.fallback': 40, 'indirect_requests.undefined-ref': 40,
       'indirect_requests.check-object': 15}
ANCHORS = ['oslo_policy._external:HttpCheck.__call__', 'oslo_policy._external:HttpsCheck.__call__',
           'oslo_policy._external:HttpCheck._construct_payload', 'oslo_policy.policy:Enforcer.enforce']
REQUIRED_ANCHORS = ['oslo_policy._external:HttpCheck.__call__', 'oslo_policy._external:HttpsCheck.__call__']
N = {'quick': 6000, 'thorough': 200000}

BODIES = ['True', '"True"', '""True""', '"True', 'True"', '"""True"""', 'true', 'TRUE', 'True\n', ' True', 'True ', '\tTrue',
          "'True'", 'false', 'False', '', '1', 'yes', 'null', '{"result": true}', '["True"]', 'True True', 'TrueTrue', 'Tru',
          'rue', 'T', '"', '""', '"True" ', ' "True"', 'Тrue', 'True\x00', 'True\r\n', '<html>True</html>',
          'BIG', 'BIGTRUE', 'BYTES1', 'BYTES2', '"False"', 'True"x', 'x"True']
STATUS = [200, 201, 204, 400, 401, 403, 404, 500, 503]
FAULTS = ['none'] * 6 + ['ConnectTimeout', 'ReadTimeout', 'ConnectionError', 'SSLError', 'no-cert', 'no-key', 'no-ca']
CTYPES = ['application/x-www-form-urlencoded', 'application/json']
NAMES = ['svc:act', 'a:b:c', 'compute:servers:créate', 'x']


def classify_body(body):
    """'allow' | 'deny' | 'open' (unbalanced / repeated quotes)."""
    if body == 'True' or body == '"True"':
        return 'allow'
    core = body.strip('"')
    if core == 'True':
        return 'open'
    return 'deny'


def body_bytes(body):
    if body == 'BIG':
        return ('x' * (1 << 20)).encode()
    if body == 'BIGTRUE':
        return ('True' + ' ' * (1 << 20)).encode()
    if body == 'BYTES1':
        return b'True\xff\xfe'
    if body == 'BYTES2':
        return b'\x80\x81True'
    return body.encode('utf-8')


class Opaque:
    pass


WRAPS = ['not', 'and-role', 'or-role', 'true-and', 'false-or', 'alias', 'not-not', 'and-true-after', 'role-first-and', 'role-first-or']

# ---- keys that the target and the credentials have in common (stratum K) ------------------------------------------
# "filled from the target": nothing says that a key of the target is not a key of the credentials as well - project_id,
# user_id, domain_id, roles are in both in every service, and the policy values of a RequestContext always carry them.
PLACEHOLDER = re.compile(r'%\(([^)]*)\)s')
T_VALUES = {'project_id': 'p-target', 'user_id': 'u-owner', 'domain_id': 'd-target', 'user_domain_id': 'ud-target',
            'project_domain_id': 'pd-target', 'roles': ['owner', 'reader'], 'is_admin_project': False, 'service_user_id': 'svc-target',
            'system_scope': 'scope-target', 'service_roles': ['svc-owner'], 'owner': 'o-target', 'x-é': 'ü-t'}
C_VALUES = {'project_id': 'p-caller', 'user_id': 'u-caller', 'domain_id': 'd-caller', 'user_domain_id': 'ud-caller',
            'project_domain_id': 'pd-caller', 'name': 'caller-name', 'id': 99, 'flag': False, 'owner': 'o-caller', 'x-é': 'ü-c',
            'tenant': 't-caller', 'user_name': 'caller'}
BASE_TARGET_KEYS = ('name', 'id', 'flag')                      # make_target always has them
CTX_KWARGS = ('project_id', 'user_id', 'domain_id', 'user_domain_id', 'project_domain_id')
DICT_BOTH = ['project_id', 'user_id', 'domain_id', 'roles', 'name', 'id', 'flag', 'owner', 'x-é', 'user_domain_id']
CTX_BOTH = ['project_id', 'user_id', 'domain_id', 'roles', 'user_domain_id', 'project_domain_id', 'is_admin_project',
            'service_user_id', 'system_scope', 'service_roles']
DICT_CONLY = ['tenant', 'user_name']                           # keys of the credentials only
CTX_CONLY = ['service_project_id', 'service_user_domain_id']   # policy values of every RequestContext; never put into the target


def share(form, keys, path, conly=()):
    """Case fields for a target and credentials (`form`: a dict / a RequestContext) that both have `keys`, with different
    values; `conly`: keys that only the credentials get."""
    tshare = {k: copy.deepcopy(T_VALUES[k]) for k in keys if k not in BASE_TARGET_KEYS}
    cshare = {k: copy.deepcopy(C_VALUES[k]) for k in list(keys) + list(conly)
              if k in C_VALUES and (form == 'dict' or k in CTX_KWARGS)}
    return dict(cform=form, tshare=tshare, cshare=cshare, path=path)


def ph(k):
    return '%(' + k + ')s'


PATH_SHAPES = [lambda ks: '/' + '/'.join(ph(k) for k in ks) + '/check',
               lambda ks: '/v1/' + ph(ks[0]) + ('?' + '&'.join('q%d=%s' % (i, ph(k)) for i, k in enumerate(ks[1:])) if ks[1:] else ''),
               lambda ks: ':8080/p/' + '-'.join(ph(k) for k in ks),
               lambda ks: '/projects/' + ph(ks[0]) + '/' + '/'.join(ph(k) for k in ks[1:] + ['name'])]


def gen_share(rnd, conly_p=0.08):
    """Random case fields of stratum K: 1-3 URL placeholders over keys that target and credentials share, sometimes one more over
    a key of the target alone, rarely one over a key of the credentials alone; sometimes more shared keys that the URL does not use."""
    form = rnd.choice(['dict', 'context'])
    pool = DICT_BOTH if form == 'dict' else CTX_BOTH
    both = rnd.sample(pool, rnd.randint(1, 3))
    unused = rnd.sample(pool, rnd.randint(0, 2))
    ks = list(both)
    if rnd.random() < 0.4:
        ks.insert(rnd.randrange(len(ks) + 1), rnd.choice(BASE_TARGET_KEYS))      # shared or not, as `both` has it
    conly = []
    if rnd.random() < conly_p:
        conly = [rnd.choice(DICT_CONLY if form == 'dict' else CTX_CONLY)]
        ks.insert(rnd.randrange(len(ks) + 1), conly[0])
    return share(form, both + [k for k in unused if k not in both], rnd.choice(PATH_SHAPES)(ks), conly)


# the product stratum's path templates: the module's original one (fields absent), and shared keys
B_SHARES = [None, None,
            share('dict', ['name', 'id'], '/%(name)s/check'),
            share('dict', ['project_id'], '/projects/%(project_id)s/%(name)s'),
            share('context', ['project_id', 'user_id'], '/projects/%(project_id)s/%(name)s'),
            share('context', ['user_id', 'domain_id', 'is_admin_project'], '/%(user_id)s/%(domain_id)s/check?admin=%(is_admin_project)s'),
            share('dict', ['roles', 'id', 'owner', 'domain_id'], '/v1/%(id)s/%(owner)s?roles=%(roles)s'),
            share('context', ['roles', 'project_domain_id', 'system_scope'], ':8080/%(project_domain_id)s/%(roles)s')]


def b_share(idx):
    return B_SHARES[zlib.crc32(b'%d' % idx) % len(B_SHARES)]


def make_creds(case, roles):
    """-> (what is passed to enforce, the credentials the server must receive, True when further keys may come with them)."""
    # every request also holds the mixed-case role PvAlways (used by the wrap `role-first-and`, whose role check must pass so
    # that the remote check behind it is reached)
    base = {'roles': list(roles) + ['PvAlways'], 'user_id': 'u1', 'project_id': 'p'}
    extra = copy.deepcopy(case.get('cshare') or {})
    if case.get('cform') == 'context':
        from oslo_context import context
        obj = context.RequestContext(**dict(base, **extra))
        return obj, json.loads(json.dumps(dict(obj.to_policy_values()))), True
    creds = dict(base, nested={'a': [1, 2]})
    creds.update(extra)
    return creds, json.loads(json.dumps(creds)), False


def fill_from_target(template, target):
    """The URL the request must go to, or None when the target lacks a key (the statement is silent then)."""
    try:
        return template % target
    except KeyError:
        return None


def mixed_roles(rnd):
    """Roles a / b, each held or not, spelled in lower, upper or mixed case, plus a mixed-case bystander: what is sent to the
    server must be the caller's own spelling."""
    out = []
    for r in ('a', 'b'):
        if rnd.random() < 0.5:
            out.append(rnd.choice([r, r.upper()]))
    if rnd.random() < 0.5:
        out.append(rnd.choice(['ImageAdmin', 'Member', 'reader']))
    return out


def build_rules(case):
    """Rules that place the remote check at the requested depth; the check is always evaluated (never short-circuited).
    Returns (rules dict, reference function leaf_value, roles -> bool)."""
    url = case['scheme'] + '://srv' + case['path']
    text = url
    fns = []
    rules = {}
    for i, wname in enumerate(case['wraps']):
        if wname == 'not':
            text, f = 'not ' + text, (lambda v, roles: not v)
        elif wname == 'and-role':
            text, f = '(%s and role:a)' % text, (lambda v, roles: v and 'a' in [r.lower() for r in roles])
        elif wname == 'or-role':
            text, f = '(%s or role:b)' % text, (lambda v, roles: v or 'b' in [r.lower() for r in roles])
        elif wname == 'role-first-and':
            # a role check is evaluated BEFORE the remote check in the same request (the remote check is still reached:
            # the request always holds role a in these cases, see roles_for)
            text, f = '(role:pvalways and %s)' % text, (lambda v, roles: v)
        elif wname == 'role-first-or':
            text, f = '(role:zz-nobody or %s)' % text, (lambda v, roles: v)
        elif wname == 'true-and':
            text, f = '(@ and %s)' % text, (lambda v, roles: v)
        elif wname == 'false-or':
            text, f = '(! or %s)' % text, (lambda v, roles: v)
        elif wname == 'alias':
            rules['alias%d' % i] = text
            text, f = 'rule:alias%d' % i, (lambda v, roles: v)
        elif wname == 'not-not':
            text, f = 'not not ' + text, (lambda v, roles: v)
        else:
            text, f = '(%s and @)' % text, (lambda v, roles: v)
        fns.append(f)
    rules[case['name']] = text

    def ref(v, roles):
        for f in fns:
            v = f(v, roles)
        return bool(v)
    return rules, ref


def make_target(case, objs):
    t = {'name': 'n1', 'id': 7, 'nested': {'k': [1, {'z': None}], 'é': 'ü'}, 'flag': True, 'none': None}
    t.update(copy.deepcopy(case.get('tshare') or {}))       # keys that the credentials have as well (other values)
    if case.get('secrets'):
        # keys that look like secrets: they belong to the target and must reach the server unchanged
        t.update({'password': 'pw-1', 'auth_token': 'tok', 'nested2': {'secret_key': 's3', 'list': [{'admin_pass': 'x'}]}})
    if case.get('nested_opaque'):
        o = object()
        objs.append(o)
        t['deep'] = {'inner': [o, {'obj': o}]}
    if case.get('opaque'):
        o = object()
        objs.append(o)
        t['obj'] = o
    if case.get('opaque2'):
        o = Opaque()
        objs.append(o)
    return t


def snapshot(x):
    if isinstance(x, dict):
        return ('dict', tuple(sorted((k, snapshot(v)) for k, v in x.items())))
    if isinstance(x, list):
        return ('list', tuple(snapshot(v) for v in x))
    if isinstance(x, (str, int, float, bool, type(None))):
        return (type(x).__name__, x)
    return ('obj', id(x))


def judge_call(ctx, case, call, fault, tls_fault, got, exc, reqs, target, creds_sent, expected_url, ref, rules, roles,
               pfx='', extra=None, creds_open=False, name_open=False):
    """The per-call oracle: what one evaluation of a rule with a remote check must have done, given the reply / fault that
    was injected for it.  `case` is what gets reported (replayable), `call` carries the settings of this one call (content
    type, policy name, body, status); in the one-call strata they are the same dict.  `pfx` keeps the counters of the
    sequence stratum apart, `extra` is added to the detail of a report.  Returns True when a violation was reported."""
    def D(d):
        return dict(d, **extra) if extra else d
    body = call['body']
    bclass = classify_body(body)
    # ---- faults ---------------------------------------------------------
    if fault != 'none':
        ctx.count(pfx + 'faults_injected')
        if tls_fault:
            ctx.count(pfx + 'tls_file_faults')
            if not isinstance(exc, RuntimeError):
                ctx.violation('tls-file-fault-not-RuntimeError', case, D({'fault': fault, 'observed': repr(exc) if exc else repr(got)}))
                return True
            elif reqs:
                ctx.violation('request-sent-despite-missing-tls-file', case, D({'fault': fault, 'requests': len(reqs)}))
                return True
            return False
        if exc is None:
            ctx.violation('transport-fault-does-not-raise', case, D({'fault': fault, 'observed_decision': repr(got)}))
            return True
        elif fault in ('ConnectTimeout', 'ReadTimeout') and not isinstance(exc, RuntimeError):
            ctx.violation('timeout-not-RuntimeError', case, D({'fault': fault, 'observed': type(exc).__name__}))
            return True
        return False
    if exc is not None:
        ctx.violation('remote-check-raises-without-fault', case, D({'observed': '%s: %s' % (type(exc).__name__, str(exc)[:100])}))
        return True
    # ---- the request ------------------------------------------------------
    if len(reqs) != 1:
        ctx.violation('unexpected-number-of-requests', case, D({'requests': len(reqs)}))
        return True
    ctx.count(pfx + 'requests_recorded')
    req = reqs[0]
    if req.url != requests.Request('POST', expected_url).prepare().url:
        ctx.violation('request-to-wrong-url', case, D({'expected': expected_url, 'observed': req.url}))
        return True
    if any(k in target and k in creds_sent and '%s' % (target[k],) != '%s' % (creds_sent[k],)
           for k in PLACEHOLDER.findall(case.get('path') or '')):
        # the URL names a key that the credentials have too, with another value: it was filled from the target
        ctx.count(pfx + 'url_placeholders_in_target_and_credentials')
        if creds_open:
            ctx.count(pfx + 'url_placeholders_shared_with_context_credentials')
    try:
        if call['ctype'] == 'application/json':
            sent = json.loads(req.body if isinstance(req.body, str) else req.body.decode())
            enc_ok = 'application/json' in req.headers.get('Content-Type', '')
        else:
            q = urllib.parse.parse_qs(req.body if isinstance(req.body, str) else req.body.decode(), keep_blank_values=True)
            sent = {k: json.loads(v[0]) for k, v in q.items()}
            enc_ok = 'application/x-www-form-urlencoded' in req.headers.get('Content-Type', '')
    except Exception as e:
        ctx.violation('request-not-decodable', case, D({'error': type(e).__name__, 'body': repr(req.body)[:200]}))
        return True
    if not enc_ok:
        ctx.violation('request-in-wrong-encoding', case, D({'configured': call['ctype'], 'content_type': req.headers.get('Content-Type')}))
        return True
    want_target = json.loads(json.dumps({k: ({} if type(v) is object else v) for k, v in target.items()}))
    want_creds = dict(creds_sent)
    problems = {}
    if name_open:
        # a check OBJECT was handed to enforce(): there is no enforced policy NAME, the statement does not say what is sent for it
        ctx.unconstrained('rule-name-sent-for-a-check-object')
    elif sent.get('rule') != call['name']:
        problems['rule'] = [sent.get('rule'), call['name']]
    if sent.get('target') != want_target:
        problems['target'] = [sent.get('target'), want_target]
    sc = dict(sent.get('credentials') or {})
    if creds_open and sc != want_creds and all(k in sc and sc[k] == v for k, v in want_creds.items()):
        # a RequestContext: all its policy values arrived; the statement does not speak about keys next to them
        ctx.unconstrained('keys-next-to-the-policy-values-of-a-context')
    elif sc != want_creds:
        problems['credentials'] = [sent.get('credentials'), want_creds]
    if problems or set(sent) != {'rule', 'target', 'credentials'}:
        key = 'request-carries-wrong-rule-name' if 'rule' in problems else 'request-payload-wrong'
        ctx.violation(key, case, D({'sent_vs_expected': problems, 'fields': sorted(sent)}))
        return True
    # ---- the decision -----------------------------------------------------
    if bclass == 'open':
        ctx.unconstrained('unbalanced-or-repeated-quotes')
        return False
    ctx.count(pfx + ('allow_bodies' if bclass == 'allow' else 'deny_bodies'))
    want = ref(bclass == 'allow', roles)
    if bool(got) != want:
        leaf_expected = bclass == 'allow'
        key = 'non-True-body-allows' if not leaf_expected else 'True-body-denies'
        ctx.violation(key, case, D({'body': body[:60], 'status': call['status'], 'rule': rules.get(call['name'], rules),
                                    'expected': want, 'observed': got}))
        return True
    return False


def check_case(ctx, case):
    from oslo_policy import policy
    tmpdir = None
    overrides = {'remote_content_type': case['ctype']}
    fault = case['fault']
    if case['scheme'] == 'https' and (case.get('tls') or fault in ('no-cert', 'no-key', 'no-ca')):
        tmpdir = tempfile.mkdtemp(prefix='pvtls-')
        paths = {}
        for nm in ('cert', 'key', 'ca'):
            paths[nm] = os.path.join(tmpdir, nm + '.pem')
            with open(paths[nm], 'w') as f:
                f.write('x')
        if fault in ('no-cert', 'no-key', 'no-ca'):
            os.unlink(paths[fault[3:]])
        overrides.update(remote_ssl_client_crt_file=paths['cert'], remote_ssl_client_key_file=paths['key'],
                         remote_ssl_ca_crt_file=paths['ca'], remote_ssl_verify_server_crt=True)
    tls_fault = fault in ('no-cert', 'no-key', 'no-ca')
    if tls_fault and case['scheme'] != 'https':
        fault = 'none'
        tls_fault = False
    try:
        subject, name_open = case['name'], False
        if case.get('via'):
            if tmpdir is None:
                tmpdir = tempfile.mkdtemp(prefix='pvtls-')
            conf, enf, rules, ref, subject, name_open = build_indirect(case, overrides, tmpdir)
        else:
            conf = env.fresh_conf(**overrides)
            enf = policy.Enforcer(conf, use_conf=False)
            rules, ref = build_rules(case)
            enf.set_rules(policy.Rules.from_dict(rules))
        objs = []
        target = make_target(case, objs)
        snap0 = snapshot(target)
        roles = case['roles']
        creds, creds_sent, creds_open = make_creds(case, roles)
        expected_url = fill_from_target(case['scheme'] + '://srv' + case['path'], target)
        body = case['body']
        bclass = classify_body(body)
        dbg = env.debug_logging() if case.get('debug') else None
        if dbg:
            dbg.__enter__()
            ctx.count('requests_under_debug_logging')
        with requests_mock.Mocker() as m:
            kw = {}
            if fault in ('ConnectTimeout', 'ReadTimeout', 'ConnectionError', 'SSLError'):
                kw['exc'] = getattr(requests.exceptions, fault)
            else:
                kw['content'] = body_bytes(body)
                kw['status_code'] = case['status']
                if not body.startswith('BYTES'):
                    kw['headers'] = {'Content-Type': 'text/plain; charset=utf-8'}
            m.post(requests_mock.ANY, **kw)
            try:
                got = enf.enforce(subject, target, creds)
                exc = None
            except Exception as e:
                got, exc = None, e
            reqs = list(m.request_history)
        if dbg:
            dbg.__exit__(None, None, None)
        ctx.case(case, nontrivial=(bclass == 'deny' or fault != 'none'), stratum=case['s'])
        if case.get('then_ctype') and fault == 'none' and not case.get('nested_opaque') and expected_url is not None:
            # the operator changes remote_content_type while the enforcer lives: the next request uses the new encoding
            conf.set_override('remote_content_type', case['then_ctype'], group='oslo_policy')
            with requests_mock.Mocker() as m2:
                m2.post(requests_mock.ANY, text='True')
                try:
                    enf.enforce(subject, make_target(case, []), {'roles': list(roles)})
                except Exception as e:
                    ctx.violation('remote-check-raises-without-fault', case, {'second_call': True, 'observed': type(e).__name__})
                    return
                r2 = list(m2.request_history)
            ctx.count('content_type_changes_on_living_enforcer')
            if len(r2) == 1:
                ct = r2[0].headers.get('Content-Type', '')
                if case['then_ctype'] not in ct:
                    ctx.violation('request-in-wrong-encoding', case, {'configured_now': case['then_ctype'], 'content_type_sent': ct,
                                                                      'first_call_used': case['ctype']})
                    return
        ctx.observe('outcomes', '%s/%s->%s' % (fault, bclass, type(exc).__name__ if exc else bool(got)))
        # ---- caller's target untouched ---------------------------------------
        if snapshot(target) != snap0:
            ctx.violation('callers-target-modified', case, {'target_after': repr(target)[:300]})
            return
        if case.get('nested_opaque'):
            # an opaque object below the top level cannot be encoded; what the call does then is outside the statement -
            # except that the caller's target must be left alone (checked just above)
            ctx.unconstrained('opaque-object-below-top-level')
            ctx.count('nested_opaque_targets')
            return
        if expected_url is None:
            # a placeholder over a key that the target does not have (a key of the credentials only, say): there is no "rule's URL
            # filled from the target"; the statement does not say what happens then - only that the target is left alone (above)
            ctx.unconstrained('url-placeholder-not-in-target')
            ctx.count('url_placeholders_not_in_target')
            ctx.observe('url_placeholder_not_in_target_outcomes',
                        '%s, %d request(s)' % (type(exc).__name__ if exc else 'returned %r' % bool(got), len(reqs)))
            return
        # ---- faults, the request, the decision: the per-call oracle -------------
        bad = judge_call(ctx, case, case, fault=fault, tls_fault=tls_fault, got=got, exc=exc, reqs=reqs, target=target,
                         creds_sent=creds_sent, expected_url=expected_url, ref=ref, rules=rules, roles=roles, creds_open=creds_open,
                         name_open=name_open)
        if case.get('via') and not bad and fault == 'none' and len(reqs) == 1:
            ctx.count('indirect_requests_recorded')
            ctx.count('indirect_requests.' + case['via']['kind'])
            ctx.observe('indirect_routes', '%s/%s/%s/chain%d' % (case['via']['kind'], case['via']['how'], case['via']['route'],
                                                                case['via']['chain']))
    finally:
        if tmpdir:
            import shutil
            shutil.rmtree(tmpdir, ignore_errors=True)


# ---- fault SEQUENCES on one living enforcer ----------------------------------------------------------------------
# The statement's quantifier is over fault sequences: the TLS-file and transport faults must be honoured on every call, whatever the
# same enforcer saw before (a file that was there at the previous call may be gone now, and back at the next one).
TLS_ROLES = ('cert', 'key', 'ca')
TLS_OPTS = {'cert': 'remote_ssl_client_crt_file', 'key': 'remote_ssl_client_key_file', 'ca': 'remote_ssl_ca_crt_file'}
TLS_FILES = ('cert', 'cert2', 'key', 'key2', 'ca', 'ca2')       # two candidate files per option
TRANSPORT = ('ConnectTimeout', 'ReadTimeout', 'ConnectionError', 'SSLError')
SEQS = {'quick': 240, 'thorough': 6000}
SEQ_WRAPS = ([], ['not'], ['alias', 'or-role'])


def seq_step(files, opts, fault='none', body='True', status=200):
    """One call of a sequence: the TLS files that exist when it is made, the file each option points at (None = option not
    set), the transport fault injected for it (or none) and the reply."""
    return dict(files=sorted(files), opts=dict(opts), fault=fault, body=body, status=status)


def check_sequence(ctx, case):
    """Several evaluations of one rule on ONE enforcer; between them TLS files are deleted / created, the remote_ssl_* options
    are pointed at other files, transport faults come and go.  Every call is judged by the per-call oracle (judge_call) from
    the state of the world at that call alone."""
    import shutil
    from oslo_policy import policy
    tmpdir = tempfile.mkdtemp(prefix='pvtls-')
    paths = {nm: os.path.join(tmpdir, nm + '.pem') for nm in TLS_FILES}
    try:
        conf = env.fresh_conf(remote_content_type=case['ctype'], remote_ssl_verify_server_crt=True)
        enf = policy.Enforcer(conf, use_conf=False)
        rules, ref = build_rules(case)
        enf.set_rules(policy.Rules.from_dict(rules))
        roles = case['roles']
        ctx.case(case, nontrivial=True, stratum='S')
        cur = {r: None for r in TLS_ROLES}      # what the options point at now (None: never set / cleared)
        history = []
        sent_before = False                     # an earlier call of this enforcer got as far as sending its request
        faulted_before = False
        prev_opts = None
        for k, step in enumerate(case['steps']):
            # -- the world at this call
            for nm in TLS_FILES:
                if nm in step['files'] and not os.path.exists(paths[nm]):
                    with open(paths[nm], 'w') as f:
                        f.write('x')
                elif nm not in step['files'] and os.path.exists(paths[nm]):
                    os.unlink(paths[nm])
            for r in TLS_ROLES:
                want = step['opts'].get(r)
                if want != cur[r]:
                    if want is None:
                        conf.clear_override(TLS_OPTS[r], group='oslo_policy')
                    else:
                        conf.set_override(TLS_OPTS[r], paths[want], group='oslo_policy')
                    cur[r] = want
            if prev_opts is not None and prev_opts != cur:
                ctx.count('sequence_option_repoints')
            prev_opts = dict(cur)
            missing = [r for r in TLS_ROLES if cur[r] is not None and cur[r] not in step['files']]
            if case['scheme'] == 'https' and missing:
                fault, tls_fault = 'no-' + missing[0], True      # no request may be sent, so a transport fault cannot show
            else:
                fault, tls_fault = step['fault'], False
            # -- the call
            objs = []
            target = make_target(case, objs)
            snap0 = snapshot(target)
            creds, creds_sent, creds_open = make_creds(case, roles)
            expected_url = fill_from_target(case['scheme'] + '://srv' + case['path'], target)
            with requests_mock.Mocker() as m:
                kw = {}
                if fault in TRANSPORT:
                    kw['exc'] = getattr(requests.exceptions, fault)
                else:
                    kw['content'] = body_bytes(step['body'])
                    kw['status_code'] = step['status']
                    if not step['body'].startswith('BYTES'):
                        kw['headers'] = {'Content-Type': 'text/plain; charset=utf-8'}
                m.post(requests_mock.ANY, **kw)
                try:
                    got = enf.enforce(case['name'], target, creds)
                    exc = None
                except Exception as e:
                    got, exc = None, e
                reqs = list(m.request_history)
            ctx.count('sequence_calls')
            if tls_fault and sent_before:
                ctx.count('sequence_tls_file_missing_after_a_sent_request')
            if fault == 'none' and faulted_before:
                ctx.count('sequence_clean_call_after_a_fault')
            history.append('%s->%s' % ('tls' if tls_fault else 'transport' if fault != 'none' else classify_body(step['body']),
                                       type(exc).__name__ if exc else bool(got)))
            extra = {'call_index': k, 'call': step, 'history': list(history)}
            if snapshot(target) != snap0:
                ctx.violation('callers-target-modified', case, dict(extra, target_after=repr(target)[:300]))
                return
            call = dict(ctype=case['ctype'], name=case['name'], body=step['body'], status=step['status'])
            if expected_url is None:
                ctx.unconstrained('url-placeholder-not-in-target')       # not generated for sequences; see check_case
                continue
            if judge_call(ctx, case, call, fault=fault, tls_fault=tls_fault, got=got, exc=exc, reqs=reqs, target=target,
                          creds_sent=creds_sent, expected_url=expected_url, ref=ref, rules=rules, roles=roles,
                          pfx='sequence_', extra=extra, creds_open=creds_open):
                return
            sent_before = sent_before or bool(reqs)
            faulted_before = faulted_before or fault != 'none'
        ctx.observe('sequence_outcomes', ' '.join(h.split('->')[0] for h in history)[:80])
    finally:
        shutil.rmtree(tmpdir, ignore_errors=True)


def seq_case(steps, **kw):
    c = dict(seq=True, s='S', ctype=CTYPES[0], scheme='https', wraps=[], name='svc:act', path='/%(name)s/check', roles=['a'],
             opaque=True, steps=steps)
    c.update(kw)
    return c


def enumerated_sequences():
    """(ok, fault, ok ...) and (fault, ok, fault ...) for each TLS file and each transport fault, by deleting / creating the
    file and by pointing the option at another file."""
    o0 = {'cert': 'cert', 'key': 'key', 'ca': 'ca'}
    full = set(TLS_ROLES)
    out = []
    for v in TLS_ROLES:
        alt = v + '2'
        gone = full - {v}
        oalt = dict(o0, **{v: alt})
        onone = dict(o0, **{v: None})
        # the file vanishes after a success, comes back, vanishes again
        out.append(seq_case([seq_step(full, o0), seq_step(gone, o0), seq_step(full, o0), seq_step(gone, o0, body='"True"'),
                             seq_step(full, o0, body='false')]))
        # missing first, then created, then gone again
        out.append(seq_case([seq_step(gone, o0), seq_step(full, o0, body='"True"'), seq_step(gone, o0), seq_step(full, o0)]))
        # the option is pointed at another file (missing, then present, then deleted) and back
        out.append(seq_case([seq_step(full, o0), seq_step(full, oalt), seq_step(full, o0), seq_step(full | {alt}, oalt),
                             seq_step(full, oalt), seq_step(full, o0)]))
        out.append(seq_case([seq_step(full, oalt), seq_step(full, o0), seq_step(gone | {alt}, o0), seq_step(gone | {alt}, oalt),
                             seq_step(gone, oalt, body='True'), seq_step(full | {alt}, oalt, body='true')]))
        # the option is cleared while its file is missing (nothing configured, nothing to miss) and set again
        out.append(seq_case([seq_step(full, o0), seq_step(gone, o0), seq_step(gone, onone), seq_step(gone, o0), seq_step(full, o0)]))
    for i, tf in enumerate(TRANSPORT):
        v = TLS_ROLES[i % 3]
        gone = full - {v}
        for scheme in ('http', 'https'):
            out.append(seq_case([seq_step(full, o0), seq_step(full, o0, fault=tf), seq_step(full, o0), seq_step(full, o0, fault=tf),
                                 seq_step(full, o0, body='true')], scheme=scheme))
        out.append(seq_case([seq_step(full, o0), seq_step(full, o0, fault=tf), seq_step(gone, o0, fault=tf), seq_step(gone, o0),
                             seq_step(full, o0), seq_step(full, o0, fault=tf)]))
        # the TLS files mean nothing to an http: check
        out.append(seq_case([seq_step(full, o0), seq_step(gone, o0), seq_step(gone, o0, fault=tf), seq_step(set(), o0, body='"True"')],
                            scheme='http'))
    return out


def gen_sequence(rnd):
    files = set(nm for nm in TLS_FILES if rnd.random() < (0.85 if nm in TLS_ROLES else 0.5))
    opts = {r: r for r in TLS_ROLES}
    if rnd.random() < 0.2:
        r = rnd.choice(TLS_ROLES)
        opts[r] = rnd.choice([r + '2', None])
    steps = []
    for k in range(rnd.randint(3, 7)):
        if k:
            missing = [opts[r] for r in TLS_ROLES if opts[r] is not None and opts[r] not in files]
            ev = rnd.random()
            if missing and ev < 0.4:
                files.add(rnd.choice(missing))                          # the file is (re-)created
            elif ev < 0.65:
                r = rnd.choice(TLS_ROLES)                               # a configured file vanishes / appears
                files.symmetric_difference_update({opts[r] or r})
            elif ev < 0.8:
                r = rnd.choice(TLS_ROLES)                               # the option is pointed elsewhere
                opts[r] = rnd.choice([r, r + '2', r + '2', None])
            elif ev < 0.88:
                files.symmetric_difference_update({rnd.choice(TLS_FILES)})
        steps.append(seq_step(files, opts, fault=rnd.choice(['none'] * 5 + list(TRANSPORT)),
                              body=rnd.choice(['True', 'True', '"True"', rnd.choice(BODIES)]), status=rnd.choice(STATUS)))
    return seq_case(steps, ctype=rnd.choice(CTYPES), scheme=rnd.choice(['https', 'https', 'https', 'http']),
                    wraps=[rnd.choice(WRAPS) for _ in range(rnd.randint(0, 4))], name=rnd.choice(NAMES),
                    path=rnd.choice(['/%(name)s/check', '/check', '/v1/%(id)s?x=%(flag)s', ':8080/p']),
                    roles=mixed_roles(rnd), opaque=rnd.random() < 0.5)


OVERLAPS = {'quick': 10, 'thorough': 150}


def check_overlap(ctx, case):
    """Two requests reach two remote checks of one enforcer at the same time.  The stub server answers True only when the
    request is self-consistent (URL filled from the same target it carries, the policy name that is being enforced for that
    URL, the credentials of that request) and its path says allow - so anything of one request that leaks into the other
    shows up as a changed decision or a recorded inconsistency."""
    from oslo_policy import policy
    from pv.mon import overlap
    conf = env.fresh_conf(remote_content_type=case['ctype'])
    enf = policy.Enforcer(conf, use_conf=False)
    rules = {}
    want_creds = {}
    for tag in 'ab':
        sub = case[tag]
        text = '%s://srv/%s/%%(name)s/%s' % (sub['scheme'], tag, 'yes' if sub['allow'] else 'no')
        # further URL segments over keys that the target of this request shares with its credentials (other values)
        text += ''.join('/' + ph(k) for k in sub.get('keys', []))
        if sub.get('cform') == 'context':
            from oslo_context import context
            want_creds[tag] = json.loads(json.dumps(dict(context.RequestContext(**copy.deepcopy(sub['creds'])).to_policy_values())))
        else:
            want_creds[tag] = sub['creds']
        if sub['wrap'] == 'alias':
            rules['alias_' + tag] = text
            text = 'rule:alias_' + tag
        elif sub['wrap'] == 'not-not':
            text = 'not not ' + text
        elif sub['wrap'] == 'and':
            text = '(@ and %s)' % text
        rules['pol:' + tag] = text
    enf.set_rules(policy.Rules.from_dict(rules))
    problems = []
    seen_shared = []

    def server(request, context):
        try:
            body = request.body if isinstance(request.body, str) else request.body.decode()
            if case['ctype'] == 'application/json':
                sent = json.loads(body)
            else:
                sent = {k: json.loads(v[0]) for k, v in urllib.parse.parse_qs(body, keep_blank_values=True).items()}
            parts = urllib.parse.urlparse(request.url).path.strip('/').split('/')
            tag, name, verdict = parts[0], urllib.parse.unquote(parts[1]), parts[2]
            want = case[tag]
            bad = []
            if sent.get('rule') != 'pol:' + tag:
                bad.append(['rule', sent.get('rule'), 'pol:' + tag])
            if sent.get('target') != want['target'] or name != want['target']['name']:
                bad.append(['target', sent.get('target'), name, want['target']])
            segs = [urllib.parse.unquote(p) for p in parts[3:]]
            if segs != ['%s' % (want['target'][k],) for k in want.get('keys', [])]:
                # not the rule's URL filled from the target that the payload carries
                bad.append(['url', request.url, want.get('keys', []), want['target']])
            sc = sent.get('credentials')
            if want.get('cform') == 'context':
                # all policy values of the context; keys next to them are not the statement's business
                if not isinstance(sc, dict) or not all(k in sc and sc[k] == v for k, v in want_creds[tag].items()):
                    bad.append(['credentials', sc, want_creds[tag]])
            elif sc != want_creds[tag]:
                bad.append(['credentials', sc, want_creds[tag]])
            if want.get('keys'):
                seen_shared.append(tag)
            if bad:
                problems.append(bad)
                return 'False'
            return 'True' if verdict == 'yes' else 'False'
        except Exception as e:
            problems.append(['undecodable-request', type(e).__name__, str(e)[:80]])
            return 'False'

    def mk(tag):
        def make():
            sub = case[tag]
            t, c = copy.deepcopy(sub['target']), copy.deepcopy(sub['creds'])
            if sub.get('cform') == 'context':
                from oslo_context import context
                c = context.RequestContext(**c)
            def run_():
                try:
                    return ['returned', bool(enf.enforce('pol:' + tag, t, c))]
                except Exception as e:
                    return ['raised', type(e).__name__, str(e)[:80]]
            return run_
        return make
    ctx.case(['overlap', case['a'], case['b'], case['ctype']], True, 'overlap')
    want = [['returned', case['a']['allow']], ['returned', case['b']['allow']]]
    detail = {'rules': rules, 'request_a': case['a'], 'request_b': case['b'], 'content_type': case['ctype'], 'expected': want}
    with requests_mock.Mocker() as m:
        m.post(requests_mock.ANY, text=server)
        ok = overlap.pair(ctx, mk('a'), mk('b'), case, detail, ctx.sub_rnd('Ob', case['rseed']))
        n = len(m.request_history)
        if ok:
            got = [mk('a')()(), mk('b')()()]
            if got != want:
                ctx.violation('True-body-denies' if [g[1] for g in got if g[0] == 'returned'] != [w[1] for w in want] and not problems
                              else wrong(problems), case, dict(detail, observed=got, inconsistencies=problems[:2]))
                return
    ctx.count('requests_recorded', n)
    ctx.count('overlap_requests_with_url_keys_shared_by_target_and_credentials', len(seen_shared))
    if problems:
        ctx.violation(wrong(problems), case, dict(detail, inconsistencies=problems[:2]))


def wrong(problems):
    """Mechanism key for what the stub server of the overlap stratum found inconsistent."""
    kinds = set(b[0] for bad in problems if isinstance(bad, list) for b in bad if isinstance(b, list))
    return 'request-to-wrong-url' if kinds == {'url'} else 'request-payload-wrong'


OVERLAP_KEYS = ['project_id', 'user_id', 'domain_id', 'user_domain_id']


def gen_overlap(ctx, i):
    r = ctx.sub_rnd('O', ctx.tier, ctx.shard, i)
    k = ctx.sub_rnd('OK', ctx.tier, ctx.shard, i)         # its own stream: the pairs stay what they were
    def sub(tag):
        d = dict(scheme=r.choice(['http', 'https']), allow=r.random() < 0.6, wrap=r.choice(['none', 'alias', 'not-not', 'and']),
                 target={'name': tag + r.choice(['1', 'x y', 'é', 'n-1']), 'id': r.randint(1, 9), 'nested': {'k': [tag, {'z': None}]}},
                 creds={'roles': [tag + 'role'], 'user_id': 'user-' + tag, 'project_id': 'p' + tag})
        # keys that the target shares with the credentials (a dict / a RequestContext), some of them in the URL
        d['cform'] = k.choice(['dict', 'context'])
        shared = k.sample(OVERLAP_KEYS, k.randint(1, 3))
        for key in shared:
            d['target'][key] = '%s-of-target-%s' % (key, tag)
            d['creds'].setdefault(key, '%s-of-caller-%s' % (key, tag))
        d['keys'] = [key for key in shared if k.random() < 0.7]
        if k.random() < 0.3:
            d['keys'].insert(k.randrange(len(d['keys']) + 1), 'id')        # a key of the target only
        return d
    return dict(overlap=True, a=sub('a'), b=sub('b'), ctype=r.choice(CTYPES), rseed='%s.%d.%d' % (ctx.tier, ctx.shard, i))


# ---- the remote check reached through every indirection that enforce() offers (stratum I) ---------------------------
# "carries the enforced policy name ... under any policy name": the name is the one given to enforce(), whichever way the
# evaluation got to the remote check - the rule of that name, the default rule standing in for a name that is defined nowhere,
# a rule: reference to an undefined name that ends at the default rule, a chain of rule: aliases in between.
VIA_KINDS = ('fallback', 'undefined-ref', 'defined', 'check-object')
VIA_HOWS = ('builtin', 'ctor', 'conf', 'ctor-check')     # how the enforcer is told its default rule
VIA_ROUTES = ('set_rules', 'file', 'registered')         # how the rules get into the enforcer
VIA_DNAMES = ('pv:fallback', 'déf-1', 'Default', 'deny_everything')
VIA_REFS = ('rule:pv-nowhere', '(@ and rule:pv-nowhere)', 'not not rule:pv-nowhere', '(! or rule:pv:nowhere:2)')


def via(kind, how='builtin', route='set_rules', chain=0, dname=None, ref=None):
    if how == 'builtin' or dname is None:
        dname = 'default' if how == 'builtin' else VIA_DNAMES[0]
    return dict(kind=kind, how=how, route=route, chain=chain, dname=dname, ref=ref or VIA_REFS[0])


def build_indirect(case, overrides, tmpdir):
    """-> (conf, enforcer, rules dict, reference function, what is handed to enforce, True when that is a check object)."""
    from oslo_policy import policy
    v = case['via']
    rules, ref = build_rules(case)
    text = rules.pop(case['name'])
    for j in range(v['chain']):                       # rule: aliases between the entry point and the remote check
        rules['hop%d' % j] = text
        text = 'rule:hop%d' % j
    dname, kind, how = v['dname'], v['kind'], v['how']
    default_check = None
    rules['pv:bystander'] = 'role:zz-nobody'          # the store is never empty (an enforcer without any rule denies everything)
    if kind in ('fallback', 'undefined-ref'):
        if how == 'ctor-check':
            default_check = policy.Rules.from_dict({'d': text})['d']      # the default rule given as a check, not as a name
        else:
            rules[dname] = text
        if kind == 'undefined-ref':
            rules[case['name']] = v['ref']            # the enforced rule refers to a name that is defined nowhere
        # kind == 'fallback': the enforced name is defined nowhere at all
    else:
        rules[case['name']] = text
        if how == 'ctor-check':
            default_check = policy.Rules.from_dict({'d': '!'})['d']
        else:
            rules[dname] = '!'                        # a default rule exists, and has nothing to do with this evaluation
    overrides = dict(overrides)
    ekw = {}
    if how == 'conf':
        overrides['policy_default_rule'] = dname
    elif how == 'ctor':
        ekw['default_rule'] = dname
    elif how == 'ctor-check':
        ekw['default_rule'] = default_check
    route = v['route']
    pfile = os.path.join(tmpdir, 'policy.json')
    if route != 'set_rules':
        overrides['policy_file'] = pfile
        overrides['policy_dirs'] = []
    conf = env.fresh_conf(**overrides)
    if route == 'file':
        with open(pfile, 'w') as f:
            json.dump(rules, f)
        enf = policy.Enforcer(conf, **ekw)
    elif route == 'registered':                       # no policy file at all: every rule is a registered default
        enf = policy.Enforcer(conf, **ekw)
        enf.register_defaults([policy.RuleDefault(k, t) for k, t in sorted(rules.items())])
    else:
        enf = policy.Enforcer(conf, use_conf=False, **ekw)
        enf.set_rules(policy.Rules.from_dict(rules))
    if kind == 'check-object':
        return conf, enf, rules, ref, policy.Rules.from_dict(rules)[case['name']], True
    return conf, enf, rules, ref, case['name'], False


def enumerated_indirect():
    out = []
    for kind in VIA_KINDS:
        for how in VIA_HOWS:
            for route in VIA_ROUTES:
                for chain in (0, 1, 2, 3):
                    n = len(out)
                    out.append(base_case(s='I', via=via(kind, how, route, chain, dname=VIA_DNAMES[n % len(VIA_DNAMES)],
                                                        ref=VIA_REFS[(n // 3) % len(VIA_REFS)]),
                                         ctype=CTYPES[n % 2], scheme=('http', 'https')[(n // 2) % 2], name=NAMES[(n // 5) % len(NAMES)],
                                         body=('True', 'False', '"True"', 'true')[(n // 7) % 4], roles=['a', 'b'],
                                         wraps=[[], ['and-role'], ['not'], ['or-role', 'alias']][(n // 11) % 4]))
    return out


def gen_indirect(rnd):
    how = rnd.choice(VIA_HOWS)
    case = dict(s='I', body=rnd.choice(['True', '"True"', 'False', 'true', rnd.choice(BODIES)]), status=rnd.choice(STATUS),
                fault=rnd.choice(['none'] * 9 + list(TRANSPORT)), ctype=rnd.choice(CTYPES), scheme=rnd.choice(['http', 'https']),
                wraps=[rnd.choice(WRAPS) for _ in range(rnd.randint(0, 3))], name=rnd.choice(NAMES),
                path=rnd.choice(['/%(name)s/check', '/check', '/v1/%(id)s?x=%(flag)s', ':8080/p']),
                roles=mixed_roles(rnd), opaque=rnd.random() < 0.3, tls=False, secrets=rnd.random() < 0.2, debug=rnd.random() < 0.4,
                via=via(rnd.choice(VIA_KINDS[:2] * 3 + VIA_KINDS[2:]), how, rnd.choice(VIA_ROUTES), rnd.randint(0, 3),
                        dname=rnd.choice(VIA_DNAMES), ref=rnd.choice(VIA_REFS)))
    if rnd.random() < 0.3:
        case.update(gen_share(rnd, conly_p=0))
    return case


INDIRECT = {'quick': 800, 'thorough': 20000}


def base_case(**kw):
    c = dict(s='B', body='True', status=200, fault='none', ctype=CTYPES[0], scheme='http', wraps=[], name='svc:act',
             path='/%(name)s/check', roles=['a'], opaque=True, tls=False)
    c.update(kw)
    return c


def run(ctx):
    # stratum I first (it is small): the remote check behind the default-rule fallback, undefined rule: references, alias chains,
    # and as a check object - by every way of naming the default rule and of getting rules into the enforcer
    irnd = ctx.sub_rnd('I', ctx.tier, ctx.shard)
    ctx.reserve(0.2)
    for j, case in enumerate(enumerated_indirect()):
        if ctx.mine(j) and not ctx.expired():
            check_case(ctx, case)
    for i in range(INDIRECT[ctx.tier] // ctx.nshards + 1):
        if ctx.expired():
            break
        case = gen_indirect(irnd)
        check_case(ctx, case)
        if i % 100 == 0:
            ctx.sample(case, 'I')
    ctx.release()
    ctx.stratum('I', exhaustive=False)
    idx = 0
    done = True
    for body in BODIES:
        for status in STATUS:
            for ctype in CTYPES:
                for scheme in ('http', 'https'):
                    idx += 1
                    if not ctx.mine(idx):
                        continue
                    if ctx.expired():
                        done = False
                        break
                    case = base_case(body=body, status=status, ctype=ctype, scheme=scheme, tls=(idx % 5 == 0))
                    if b_share(idx):
                        case.update(copy.deepcopy(b_share(idx)))     # path templates over keys that target and credentials share
                    check_case(ctx, case)
                    if idx % 400 == 0:
                        ctx.sample(case, 'B')
    for fault in ('ConnectTimeout', 'ReadTimeout', 'ConnectionError', 'SSLError', 'no-cert', 'no-key', 'no-ca'):
        for ctype in CTYPES:
            for scheme in ('http', 'https'):
                for wraps in ([], ['not'], ['alias', 'or-role']):
                    idx += 1
                    if ctx.mine(idx):
                        check_case(ctx, base_case(s='F', fault=fault, ctype=ctype, scheme=scheme, wraps=wraps, roles=['a', 'b']))
    ctx.stratum('B', exhaustive=done)
    ctx.stratum('F', exhaustive=True)
    # fault sequences on one living enforcer: the enumerated ones
    for sc in enumerated_sequences():
        for ctype in CTYPES:
            for wraps in SEQ_WRAPS:
                idx += 1
                if not ctx.mine(idx):
                    continue
                if ctx.expired():
                    break
                case = dict(sc, ctype=ctype, wraps=list(wraps), roles=['a', 'b'] if wraps else ['a'])
                if b_share(idx):
                    case.update(copy.deepcopy(b_share(idx)))
                check_sequence(ctx, case)
                if idx % 40 == 0:
                    ctx.sample(case, 'S')
    rnd = ctx.rnd
    krnd = ctx.sub_rnd('K', ctx.tier, ctx.shard)        # its own stream: the cases of R stay what they were
    for i in range(N[ctx.tier] // ctx.nshards + 1):
        if ctx.expired():
            break
        case = dict(s='R', body=rnd.choice(BODIES), status=rnd.choice(STATUS), fault=rnd.choice(FAULTS),
                    ctype=rnd.choice(CTYPES), scheme=rnd.choice(['http', 'https']),
                    wraps=[rnd.choice(WRAPS) for _ in range(rnd.randint(0, 5))], name=rnd.choice(NAMES),
                    path=rnd.choice(['/%(name)s/check', '/check', '/v1/%(id)s?x=%(flag)s', '/%(name)s/%(name)s', ':8080/p']),
                    roles=mixed_roles(rnd), opaque=rnd.random() < 0.5, tls=rnd.random() < 0.4,
                    then_ctype=rnd.choice([None, None] + CTYPES), secrets=rnd.random() < 0.4, debug=rnd.random() < 0.4,
                    nested_opaque=rnd.random() < 0.1)
        if krnd.random() < 0.5:
            case.update(gen_share(krnd))
        check_case(ctx, case)
        if i % 150 == 0:
            ctx.sample(case, 'R')
    ctx.stratum('R', exhaustive=False)
    # fault sequences on one living enforcer: random ones
    srnd = ctx.sub_rnd('S', ctx.tier, ctx.shard)
    skrnd = ctx.sub_rnd('SK', ctx.tier, ctx.shard)
    for i in range(SEQS[ctx.tier] // ctx.nshards + 1):
        if ctx.expired():
            break
        case = gen_sequence(srnd)
        if skrnd.random() < 0.5:
            case.update(gen_share(skrnd, conly_p=0))
        check_sequence(ctx, case)
    ctx.stratum('S', exhaustive=False)
    # two overlapping requests, last (the line-level scheduler slows everything that runs after it is installed)
    from pv.mon import sched
    ctx.stratum('overlap', exhaustive=False)
    try:
        for i in range(OVERLAPS[ctx.tier]):
            if ctx.expired():
                break
            check_overlap(ctx, gen_overlap(ctx, i))
    finally:
        sched.uninstall()


def replay(ctx, case):
    if case.get('overlap'):
        return check_overlap(ctx, case)
    if case.get('seq'):
        return check_sequence(ctx, case)
    check_case(ctx, case)
