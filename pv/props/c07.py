"""C07 - enforce either returns the decision or raises the requested exception.

Pairwise metamorphic monitor: the same (rules, rule, target, credentials) is
enforced in six modes by the real code - plain, do_raise, do_raise with a
custom exception class and extra arguments, and the three authorize variants -
each with debug logging off and on; outcomes must be related exactly as the
statement says.  Deep snapshots show the inputs are not altered.  icontract
post-condition on the real Enforcer.enforce: do_raise never yields a falsy
return.  A share of the triples additionally goes through every calling
convention (do_raise omitted / by keyword / positional / non-bool spellings,
exception class and extra arguments by keyword or positionally)."""
import collections.abc
import json
import copy

from pv.core import env
from pv.gen import expr
from pv.mon import contracts

ID = 'C07'
LEVEL = 'exploration'
TECHNIQUE = ('pairwise metamorphic runtime monitor over enforce/authorize modes on identical inputs; deep input '
             'snapshots; icontract post-condition on Enforcer.enforce; recording check counts evaluations; overlapping requests under a deterministic line-level thread scheduler (sys.monitoring)')
RULE = ('cases = (rule set from the expression generator + fixed always-allow/deny/role/attribute/unknown names + check '
        'objects returning odd falsy/truthy values (0, "", None, [], "yes", object()) + scoped registered policies; 8 % of the triples run against a completely empty rule set) x '
        'credentials (role subsets, scope fields, non-JSON values: bytes, sets, objects, passwords) x targets (nested, '
        'opaque objects) x {plain, do_raise, do_raise+custom class+args} x {enforce, authorize} x debug logging off/on. '
        'Non-trivial = the plain decision is falsy (so the raising modes must raise) or a scope mismatch applies; '
        'distinct = distinct (rules, rule, target, creds) triple. Stratum `overlap`: two requests on one enforcer at the same time in different modes with different exception arguments (second one runs at sampled line boundaries of the first, deterministic scheduler): each outcome is that of the request alone. '
        'Stratum `related-names`: fresh enforcers whose registered defaults include renamed policies (DeprecatedRule with another name) and same-name '
        'deprecations, rule set from a policy file or in memory with / without the old name defined or overridden; authorize in the three modes on names that are '
        'NOT registered but related to registered ones (deprecated old name of a renamed policy, other letter case, surrounding white space, prefix / suffix, '
        'look-alike spelling, defined in the rule set only, the default rule, registered on another enforcer) must raise PolicyNotRegistered with no check '
        'evaluated (all rules involved start with the counting check), before and after the first load; the registered names: authorize == enforce in every mode. '
        'Stratum `conventions`: every 8th triple is also sent through 22 calling conventions of enforce and of authorize - do_raise omitted altogether '
        '(alone, with exc=None, with the exception class and the extra arguments given by keyword), False / True by keyword and positionally with the class and '
        'extra arguments given positionally or by keyword in either order, and the non-bool spellings None, 0, "" (off) and 1, "yes" (on): every off spelling '
        'returns (never raises) a value of the truth value of the plain call; every on spelling is related to the plain call as the statement says '
        '(InvalidScope / the class built from exactly the arguments given / PolicyNotAuthorized naming the policy / truthy return); authorize: the same '
        'outcome as enforce per convention for registered names, PolicyNotRegistered with nothing evaluated otherwise. '
        'Stratum `lookup`: fresh enforcers (in-memory rules with use_conf=False, or a policy file) whose default rule is the built-in name, the Enforcer '
        'argument or the configured policy_default_rule and is defined as deny / allow / a data-dependent rule / not at all (a decoy rule merely called '
        '"default" included), some names registered (one of them absent from the rule set); credentials (dict or a non-dict MutableMapping) and targets whose '
        'keys and values contain the words the debug dump masks (password, token, secret, auth_token ... as whole keys, parts of keys, other letter case, in '
        'nested dictionaries and lists, dotted target keys like target.secret.project_id, values like password=abc), read by the rules through %(key)s '
        'placeholders, attribute paths and literals; requested: every defined name, the default rule itself, names defined nowhere - each in the three modes of '
        'enforce and authorize with debug logging off and on: modes related as the statement says, PolicyNotAuthorized names the REQUESTED policy also when the '
        'default rule served it, the decision is that of the rule on the caller\'s own data (reference evaluation) and identical with logging on, inputs unmodified.')
ASSUMPTIONS = ['the documented mirroring of system_scope into system is the only permitted change to the credentials',
               'the message of PolicyNotAuthorized "names the policy" = contains str(rule) for rules given by name',
               'do_raise "off" includes leaving the argument out (its documented default) and "on"/"off" are read by truth value (None, 0, "" = off; '
               '1, "yes" = on), as the unchanged library does; exc=None is "no class given"']
LEVEL_TEXT = ('Seeded sampling of triples, each enforced in 12 mode combinations by the real code and related pairwise; the '
              'suite never relates two modes on one input.')
LEVEL_NOTE = 'trusted: the mode-relation oracle transcribed from the statement; copy.deepcopy for fresh inputs per call'
PLAN = {'quick': dict(shards=4, wall=120), 'thorough': dict(shards=16, wall=400)}
MIN = {'overlapping_evaluations': 200, 'evaluations': 1000, 'falsy_plain': 300, 'truthy_plain': 300, 'custom_exceptions_seen': 200,
       'invalid_scope_seen': 20, 'not_registered_seen': 100, 'debug_on_triples': 300, 'empty_ruleset_triples': 50,
       'related_name_probes': 800, 'related_name_probes.deprecated-old-name': 80, 'related_registered_compared': 300,
       'convention_triples': 800, 'convention_triples_denied': 400, 'convention_triples_allowed': 200,
       'convention_triples_registered_name': 150, 'convention_calls': 50000,
       'lookup_requests': 600, 'lookup_fallback_to_defined_default_denied': 80, 'lookup_fallback_to_other_default_name_denied': 30,
       'lookup_secret_sensitive_allowed': 40}
ANCHORS = ['oslo_policy.policy:Enforcer.enforce', 'oslo_policy.policy:Enforcer.authorize',
           'oslo_policy.policy:Enforcer._enforce_scope']
REQUIRED_ANCHORS = ['oslo_policy.policy:Enforcer.enforce', 'oslo_policy.policy:Enforcer.authorize']
N = {'quick': 24000, 'thorough': 400000}


class CustomDenied(Exception):
    def __init__(self, *a, **k):
        super().__init__(*a)
        self.a = a
        self.k = k


class Opaque:
    def __repr__(self):
        return '<opaque>'


def snapshot(x):
    """Deep structural snapshot; opaque objects by identity."""
    if isinstance(x, dict):
        return ('dict', tuple(sorted(((repr(k), snapshot(v)) for k, v in x.items()), key=lambda kv: kv[0])))
    if isinstance(x, (list, tuple)):
        return (type(x).__name__, tuple(snapshot(v) for v in x))
    if isinstance(x, (set, frozenset)):
        return ('set', tuple(sorted(repr(v) for v in x)))
    if isinstance(x, (str, bytes, int, float, bool, type(None))):
        return (type(x).__name__, x)
    return ('obj', id(x))


def fresh(x, memo_objs):
    """Deep copy that keeps opaque objects shared (they are compared by identity)."""
    if isinstance(x, dict):
        return {k: fresh(v, memo_objs) for k, v in x.items()}
    if isinstance(x, list):
        return [fresh(v, memo_objs) for v in x]
    if isinstance(x, (set, frozenset, tuple)):
        return type(x)(fresh(v, memo_objs) for v in x)
    return x


def outcome(fn):
    try:
        return ('ret', fn())
    except Exception as e:
        return ('exc', e)


_KINDS = []


def kinds():
    """The recording check classes (created once per process, shared by the worlds)."""
    if _KINDS:
        return _KINDS
    from oslo_policy import _checks

    class Odd(_checks.BaseCheck):
        calls = 0

        def __init__(self, v, scope_types=None):
            self.v = v
            self.scope_types = scope_types

        def __str__(self):
            return 'odd-check'

        def __call__(self, target, creds, enforcer, current_rule=None):
            Odd.calls += 1
            return self.v

    class Counting(_checks.Check):
        calls = 0

        def __call__(self, target, creds, enforcer, current_rule=None):
            Counting.calls += 1
            return self.match in creds.get('roles', [])
    env.register_kind('pvcount', Counting)
    _KINDS.extend([Odd, Counting])
    return _KINDS


class World:
    """One enforcer with a fixed rule universe + per-case generated rules."""

    def __init__(self, enforce_scope=True):
        from oslo_policy import policy, _checks
        self.policy = policy
        self._checks = _checks
        self.enf = policy.Enforcer(env.fresh_conf(enforce_scope=enforce_scope), use_conf=False)
        self.enforce_scope = enforce_scope
        self.Odd, self.Counting = kinds()
        self.base = {'allow': '@', 'deny': '!', 'rx': 'role:x', 'nrx': 'not role:x', 'owner': 'tenant:%(tenant_id)s',
                     'cnt': 'pvcount:x', 'sys_only': '@', 'proj_only': 'role:x or @', 'sys_deny': '!'}
        self.registered = {'rx': None, 'deny': None, 'cnt': None, 'sys_only': ['system'], 'proj_only': ['project'],
                           'sys_deny': ['system', 'domain']}
        for name, st in self.registered.items():
            self.enf.register_default(policy.RuleDefault(name, self.base[name], scope_types=st))

    def close(self):
        env.unregister_kind('pvcount')
        del _KINDS[:]

    def install(self, extra):
        rules = dict(self.base)
        rules.update(extra)
        self.enf.set_rules(self.policy.Rules.from_dict(rules))

    def install_empty(self):
        """No rules at all: the enforcer fails closed for every name (check objects are still evaluated)."""
        self.enf.set_rules({})


def token_scope(creds):
    if creds.get('system') or creds.get('system_scope'):
        return 'system'
    if creds.get('domain_id'):
        return 'domain'
    return 'project'


ODD_VALUES = [0, '', None, [], 'yes', 1, False, True, 0.0, {}, 'False', [0]]


# ---- stratum `conventions`: the ways a caller can spell "do_raise off" / "do_raise on" ------------------------------------
# (label, 'off' | 'on', spelling class, exception class given?, extra positional arguments given?, the call)
# `a` / `k` = the case's extra positional / keyword arguments.  Extra positional arguments can only be given together with
# a positional do_raise and exc; by keyword everything can be given with do_raise left out.
CONVENTIONS = [
    ('omitted, exc=Cls, **kw', 'off', 'omitted', True, False, lambda fn, r, t, c, a, k: fn(r, t, c, exc=CustomDenied, **k)),
    ('omitted, **kw', 'off', 'omitted', False, False, lambda fn, r, t, c, a, k: fn(r, t, c, **k)),
    ('omitted, exc=None', 'off', 'omitted', False, False, lambda fn, r, t, c, a, k: fn(r, t, c, exc=None)),
    ('do_raise=False', 'off', 'False', False, False, lambda fn, r, t, c, a, k: fn(r, t, c, do_raise=False)),
    ('do_raise=False, exc=Cls, **kw', 'off', 'False', True, False,
     lambda fn, r, t, c, a, k: fn(r, t, c, do_raise=False, exc=CustomDenied, **k)),
    ('exc=Cls, **kw, do_raise=False', 'off', 'False', True, False,
     lambda fn, r, t, c, a, k: fn(r, t, c, exc=CustomDenied, do_raise=False, **k)),
    ('False', 'off', 'False', False, False, lambda fn, r, t, c, a, k: fn(r, t, c, False)),
    ('False, Cls, *a, **kw', 'off', 'False', True, True, lambda fn, r, t, c, a, k: fn(r, t, c, False, CustomDenied, *a, **k)),
    ('False, exc=Cls, **kw', 'off', 'False', True, False, lambda fn, r, t, c, a, k: fn(r, t, c, False, exc=CustomDenied, **k)),
    ('None', 'off', 'falsy', False, False, lambda fn, r, t, c, a, k: fn(r, t, c, None)),
    ('do_raise=None, exc=Cls, **kw', 'off', 'falsy', True, False,
     lambda fn, r, t, c, a, k: fn(r, t, c, do_raise=None, exc=CustomDenied, **k)),
    ('0, Cls, *a, **kw', 'off', 'falsy', True, True, lambda fn, r, t, c, a, k: fn(r, t, c, 0, CustomDenied, *a, **k)),
    ("do_raise='', exc=Cls, **kw", 'off', 'falsy', True, False,
     lambda fn, r, t, c, a, k: fn(r, t, c, do_raise='', exc=CustomDenied, **k)),
    ('do_raise=True, exc=Cls, **kw', 'on', 'True', True, False,
     lambda fn, r, t, c, a, k: fn(r, t, c, do_raise=True, exc=CustomDenied, **k)),
    ('True, exc=Cls, **kw', 'on', 'True', True, False, lambda fn, r, t, c, a, k: fn(r, t, c, True, exc=CustomDenied, **k)),
    ('exc=Cls, **kw, do_raise=True', 'on', 'True', True, False,
     lambda fn, r, t, c, a, k: fn(r, t, c, exc=CustomDenied, do_raise=True, **k)),
    ('do_raise=True, exc=None', 'on', 'True', False, False, lambda fn, r, t, c, a, k: fn(r, t, c, do_raise=True, exc=None)),
    ('True, None', 'on', 'True', False, False, lambda fn, r, t, c, a, k: fn(r, t, c, True, None)),
    ('do_raise=True, **kw', 'on', 'True', False, False, lambda fn, r, t, c, a, k: fn(r, t, c, do_raise=True, **k)),
    ('1, Cls, *a, **kw', 'on', 'truthy', True, True, lambda fn, r, t, c, a, k: fn(r, t, c, 1, CustomDenied, *a, **k)),
    ("do_raise='yes'", 'on', 'truthy', False, False, lambda fn, r, t, c, a, k: fn(r, t, c, do_raise='yes')),
    ("do_raise='yes', exc=Cls, **kw", 'on', 'truthy', True, False,
     lambda fn, r, t, c, a, k: fn(r, t, c, do_raise='yes', exc=CustomDenied, **k)),
]
CONVENTION_EVERY = 8          # every 8th triple of the random stratum is also run through all calling conventions


def gen_case(rnd):
    k = rnd.randint(1, 4)
    ast = expr.random_ast(rnd, rnd.randint(0, 3), k)
    gen_rule = expr.spell(expr.to_tokens(ast, lambda i: 'role:%s' % 'xyzw'[i]))
    roles = [r for r in 'xyzw' if rnd.random() < 0.4]
    creds = {'roles': roles}
    for key, val in (('system_scope', 'all'), ('domain_id', 'd1'), ('project_id', 'p1'), ('tenant_id', 't1'),
                     ('system', 'all')):
        if rnd.random() < 0.25:
            creds[key] = val
    hostile = rnd.random() < 0.4
    if hostile:
        creds.update({'password': 'secret', 'blob': b'\x00\xff', 'obj': 'OPAQUE', 's': 'SET', 'auth_token': 'tok',
                      '1': 'int-key', 'nested': {'password': 'p2', 'l': [1, {'token': 't'}]}})
    target = {}
    if rnd.random() < 0.6:
        target['tenant_id'] = rnd.choice(['t1', 't2'])
    if rnd.random() < 0.4:
        target.update({'k': 'OPAQUE', 'password': 'p', 'n': {'a': [1, 2, {'secret': 'x'}]}})
    choice = rnd.random()
    if choice < 0.55:
        rule = rnd.choice(['allow', 'deny', 'rx', 'nrx', 'owner', 'cnt', 'sys_only', 'proj_only', 'sys_deny', 'gen',
                           'gen', 'gen', 'ghost'])
        byobj = None
    elif choice < 0.85:
        rule = None
        byobj = dict(value=rnd.randrange(len(ODD_VALUES)), scope=rnd.choice([None, None, ['system'], ['project', 'domain']]))
    else:
        rule = 'gen-as-object'
        byobj = None
    exc_args = rnd.choice([[], [1, 'two'], ['only'], [None]])
    exc_kwargs = rnd.choice([{}, {'kw': 3}, {'a': None, 'b': [1]}, {'name': 'n'}, {'message': 'm', 'code': 403}, {'reason': 'r', 'outcome': 0},
                             {'policy': 'p', 'context': None}, {'check': 1, 'key': 'k', 'value': 'v'}, {'msg': 'x', 'error': 'e', 'cls': 1}])
    return dict(gen_rule=gen_rule, rule=rule, byobj=byobj, creds=creds, target=target, exc_args=exc_args,
                exc_kwargs=exc_kwargs, debug=rnd.random() < 0.5, enforce_scope=rnd.random() < 0.8,
                empty_rules=rnd.random() < 0.08)


def materialise(x, objs):
    """Replace the placeholders 'OPAQUE' / 'SET' by live non-JSON values."""
    if isinstance(x, dict):
        out = {}
        for k, v in x.items():
            if isinstance(k, str) and k.isdigit():
                k = int(k)                      # replay files carry int keys as strings
            out[k] = materialise(v, objs)
        return out
    if isinstance(x, list):
        return [materialise(v, objs) for v in x]
    if x == 'OPAQUE':
        o = Opaque()
        objs.append(o)
        return o
    if x == 'SET':
        return {1, 2}
    return x


def check_case(ctx, worlds, case):
    w = worlds[bool(case['enforce_scope'])]
    policy = w.policy
    if case.get('empty_rules'):
        w.install_empty()
        ctx.count('empty_ruleset_triples')
    else:
        w.install({'gen': case['gen_rule']})
    objs = []
    creds0 = materialise(case['creds'], objs)
    if 'blob' in creds0 and isinstance(creds0['blob'], str):
        creds0['blob'] = b'\x00\xff'
    target0 = materialise(case['target'], objs)
    if case['byobj'] is not None:
        rule = w.Odd(ODD_VALUES[case['byobj']['value']], case['byobj']['scope'])
        scope_types = case['byobj']['scope']
        name = None
    elif case['rule'] == 'gen-as-object':
        from oslo_policy import _parser
        rule = _parser.parse_rule(case['gen_rule'])
        scope_types = None
        name = None
    else:
        rule = name = case['rule']
        scope_types = w.registered.get(name)
    if case.get('empty_rules') and name is not None:
        # with no rules at all a name resolves to nothing: the request is simply denied (C03); there is no policy whose
        # scope types could be checked
        scope_types = None
    mismatch = bool(scope_types) and w.enforce_scope and token_scope(creds0) not in scope_types
    args = tuple(case['exc_args'])
    kwargs = dict(case['exc_kwargs'])

    def run_modes(fn):
        res = {}
        snaps_ok = True
        for mode in ('plain', 'raise', 'custom'):
            c = fresh(creds0, objs)
            t = fresh(target0, objs)
            before = (snapshot(c), snapshot(t))
            if mode == 'plain':
                res[mode] = outcome(lambda: fn(rule, t, c))
            elif mode == 'raise':
                res[mode] = outcome(lambda: fn(rule, t, c, do_raise=True))
            else:
                res[mode] = outcome(lambda: fn(rule, t, c, True, CustomDenied, *args, **kwargs))
            after_c = dict(c)
            if 'system' in after_c and 'system' not in creds0 and after_c.get('system') == creds0.get('system_scope'):
                del after_c['system']           # the documented mirroring
            if (snapshot(after_c), snapshot(t)) != before:
                snaps_ok = False
        return res, snaps_ok

    def judge(res, label):
        p, r, c = res['plain'], res['raise'], res['custom']
        detail = {k: describe(v) for k, v in res.items()}
        if p[0] == 'exc':
            return 'plain-mode-raises', detail
        falsy = not p[1]
        if mismatch:
            if p[1] is not False and p[1]:
                return 'scope-mismatch-allowed', detail
            for m in (r, c):
                if not (m[0] == 'exc' and isinstance(m[1], policy.InvalidScope)):
                    return 'scope-mismatch-not-InvalidScope', detail
            return None, detail
        if falsy:
            if not (r[0] == 'exc' and type(r[1]) is policy.PolicyNotAuthorized):
                return 'deny-without-PolicyNotAuthorized', detail
            if name is not None and str(name) not in str(r[1]):
                return 'PolicyNotAuthorized-does-not-name-policy', detail
            if not (c[0] == 'exc' and type(c[1]) is CustomDenied):
                return 'deny-without-custom-exception', detail
            if c[1].a != args or c[1].k != kwargs:
                return 'custom-exception-arguments-lost', detail
        else:
            if r[0] == 'exc' or c[0] == 'exc':
                return 'allowed-request-raises', detail
            if not r[1] or not c[1]:
                return 'do_raise-returns-falsy', detail
        return None, detail

    def run_conventions(fn):
        out = []
        for label, kind, spelling, with_class, positional, call in CONVENTIONS:
            c = fresh(creds0, objs)
            t = fresh(target0, objs)
            out.append(outcome(lambda: call(fn, rule, t, c, args, kwargs)))
            ctx.count('convention_calls')
        return out

    def judge_convention(conv, o, plain):
        """What the statement says about one spelling of do_raise, given the outcome of the plain call (which returned)."""
        label, kind, spelling, with_class, positional, call = conv
        if kind == 'off':
            # do_raise off: the decision is returned, whatever else the caller passes along
            if o[0] == 'exc':
                return 'do_raise-%s-raises' % spelling
            if bool(o[1]) != bool(plain[1]):
                return 'do_raise-%s-decision-differs' % spelling
            if describe(o) != describe(plain):
                ctx.unconstrained('off-spellings-return-different-values-of-one-truth-value')
            return None
        if mismatch:
            if not (o[0] == 'exc' and isinstance(o[1], policy.InvalidScope)):
                return 'scope-mismatch-not-InvalidScope'
            return None
        if not plain[1]:
            if with_class:
                if not (o[0] == 'exc' and type(o[1]) is CustomDenied):
                    return 'deny-without-custom-exception'
                if o[1].a != (args if positional else ()) or o[1].k != kwargs:
                    return 'custom-exception-arguments-lost'
            else:
                if not (o[0] == 'exc' and type(o[1]) is policy.PolicyNotAuthorized):
                    return 'deny-without-PolicyNotAuthorized'
                if name is not None and str(name) not in str(o[1]):
                    return 'PolicyNotAuthorized-does-not-name-policy'
        else:
            if o[0] == 'exc':
                return 'allowed-request-raises'
            if not o[1]:
                return 'do_raise-returns-falsy'
        return None

    def check_conventions(eplain, debug):
        """The same triple through every calling convention of enforce and of authorize."""
        suffix = '-under-debug-logging' if debug else ''
        eres = run_conventions(w.enf.enforce)
        for conv, o in zip(CONVENTIONS, eres):
            key = judge_convention(conv, o, eplain)
            if key:
                ctx.violation('convention-' + key + suffix, case,
                              {'api': 'enforce', 'convention': conv[0], 'plain': describe(eplain), 'observed': describe(o),
                               'debug': debug})
        before_calls = w.Odd.calls + w.Counting.calls
        ares = run_conventions(w.enf.authorize)
        if name is not None and name in w.registered:
            for conv, o, eo in zip(CONVENTIONS, ares, eres):
                key = judge_convention(conv, o, eplain)
                if key:
                    ctx.violation('authorize-convention-' + key + suffix, case,
                                  {'api': 'authorize', 'convention': conv[0], 'plain': describe(eplain),
                                   'observed': describe(o), 'debug': debug})
                elif describe(o) != describe(eo):
                    ctx.violation('authorize-convention-differs-from-enforce' + suffix, case,
                                  {'convention': conv[0], 'enforce': describe(eo), 'authorize': describe(o), 'debug': debug})
        else:
            bad = [conv[0] for conv, o in zip(CONVENTIONS, ares)
                   if not (o[0] == 'exc' and isinstance(o[1], policy.PolicyNotRegistered))]
            if bad:
                ctx.violation('authorize-unregistered-not-refused', case,
                              {'conventions': bad, 'observed': {conv[0]: describe(o) for conv, o in zip(CONVENTIONS, ares)}})
            elif w.Odd.calls + w.Counting.calls != before_calls:
                ctx.violation('authorize-unregistered-evaluates', case,
                              {'conventions': True, 'check_calls': w.Odd.calls + w.Counting.calls - before_calls})

    results = {}
    for debug in ((False, True) if case['debug'] else (False,)):
        cm = env.debug_logging() if debug else None
        if cm:
            cm.__enter__()
        try:
            res, snaps_ok = run_modes(w.enf.enforce)
            key, detail = judge(res, 'enforce')
            if key:
                ctx.violation(key + ('' if not debug else '-under-debug-logging'), case, dict(detail, api='enforce', debug=debug))
            if not snaps_ok:
                ctx.violation('inputs-modified', case, dict(detail, api='enforce', debug=debug))
            results[debug] = res
            # authorize
            before_calls = w.Odd.calls + w.Counting.calls
            ares, asnaps = run_modes(w.enf.authorize)
            if name is not None and name in w.registered:
                akey, adetail = judge(ares, 'authorize')
                if akey:
                    ctx.violation('authorize-' + akey, case, dict(adetail, api='authorize', debug=debug))
                elif [describe(v) for v in ares.values()] != [describe(v) for v in res.values()]:
                    ctx.violation('authorize-differs-from-enforce', case,
                                  {'enforce': detail, 'authorize': adetail, 'debug': debug})
            else:
                ctx.count('not_registered_seen')
                bad = [m for m, v in ares.items() if not (v[0] == 'exc' and isinstance(v[1], policy.PolicyNotRegistered))]
                if bad:
                    ctx.violation('authorize-unregistered-not-refused', case,
                                  {'modes': bad, 'observed': {k: describe(v) for k, v in ares.items()}})
                elif w.Odd.calls + w.Counting.calls != before_calls:
                    ctx.violation('authorize-unregistered-evaluates', case, {'check_calls': w.Odd.calls + w.Counting.calls - before_calls})
            if case.get('conventions') and res['plain'][0] == 'ret':
                check_conventions(res['plain'], debug)
        finally:
            if cm:
                cm.__exit__(None, None, None)
    if case.get('conventions') and results[False]['plain'][0] == 'ret':
        ctx.count('convention_triples')
        if mismatch or not results[False]['plain'][1]:
            ctx.count('convention_triples_denied')
        else:
            ctx.count('convention_triples_allowed')
        if name is not None and name in w.registered:
            ctx.count('convention_triples_registered_name')
    if case['debug']:
        ctx.count('debug_on_triples')
        a = {k: describe(v) for k, v in results[False].items()}
        b = {k: describe(v) for k, v in results[True].items()}
        if a != b:
            ctx.violation('debug-logging-changes-outcome', case, {'logging_off': a, 'logging_on': b})
    p = results[False]['plain']
    falsy = p[0] == 'ret' and not p[1]
    ctx.case([case['gen_rule'], case['rule'], case['byobj'], case['creds'], case['target']], nontrivial=falsy or mismatch)
    ctx.count('falsy_plain' if falsy else 'truthy_plain')
    if results[False]['custom'][0] == 'exc' and isinstance(results[False]['custom'][1], CustomDenied):
        ctx.count('custom_exceptions_seen')
    if any(v[0] == 'exc' and isinstance(v[1], policy.InvalidScope) for v in results[False].values()):
        ctx.count('invalid_scope_seen')
    ctx.observe('plain_results', describe(p))
    for cname, info in contracts.drain():
        ctx.violation('do_raise-returns-falsy', case, {'contract': cname, 'observed': info})


# ---- stratum `related-names`: unregistered names that are *related* to registered ones ---------------------------------
RELATED = {'quick': 480, 'thorough': 12000}
_SVC = ['compute', 'volume', 'identity', 'os_api', 'Net', 'img']
_RES = ['server', 'volume', 'user', 'Port', 'share_type', 'key']
_VERB = ['create', 'get', 'list', 'delete', 'update', 'Show']
# every check string starts with the counting check, so that any evaluation at all moves the call counter
COUNTED = ['pvcount:x', 'not pvcount:x', 'pvcount:x or pvcount:y', 'pvcount:y and role:z', 'pvcount:y or role:z',
           'pvcount:z and not role:x', 'not pvcount:y and pvcount:x', 'pvcount:x or @', 'pvcount:y and !']
PLAINS = ['@', '!', 'role:x', 'not role:y', 'role:x and role:z']


def _old_names(rnd, svc, res, verb, new):
    """Spellings a policy may have had before it was renamed (all different from `new`)."""
    cands = ['%s:%s_%s' % (svc, res, verb), '%s:%s:%s' % (svc, res, verb), '%s_%s' % (verb, res), '%s:%s' % (svc, verb),
             '%s:%ss:%s' % (svc, res, verb), new.upper(), new.swapcase(), new + ':v1', 'old_' + new, new.replace(':', '.'),
             new.rsplit('_', 1)[0]]
    return [c for c in cands if c != new]


def related_variants(name):
    """[kind, spelling] pairs close to `name` (the caller drops the ones that are registered themselves)."""
    head = name.split(':')[0]
    out = [['case', name.upper()], ['case', name.lower()], ['case', name.swapcase()], ['case', name.capitalize()],
           ['case', name.title()],
           ['space', name + ' '], ['space', ' ' + name], ['space', name + '\n'], ['space', '\t' + name], ['space', name + '\x00'],
           ['space', name.replace(':', ': ', 1)], ['space', name.replace('_', ' ', 1)],
           ['affix', name[:-1]], ['affix', name[1:]], ['affix', name + 's'], ['affix', name + ':'], ['affix', ':' + name],
           ['affix', head], ['affix', head + ':'], ['affix', name.rsplit('_', 1)[0]], ['affix', name + '_all'],
           ['affix', 'rule:' + name], ['affix', name + ':' + name], ['affix', name * 2],
           ['lookalike', name.replace(':', '\uff1a')], ['lookalike', name.replace('_', '-')], ['lookalike', name.replace(':', '.')],
           ['lookalike', name.replace('e', '\u0435', 1)], ['lookalike', '"%s"' % name], ['lookalike', name[::-1]]]
    return [[k, v] for k, v in out if v != name]


def gen_related(rnd):
    """Registered defaults, some of them renamed (DeprecatedRule with another name) or re-defined under the same name, a rule
    set (file or in-memory) that may or may not define / override the old names, and names to probe that are not registered
    but related to registered ones."""
    policies, names = [], set()
    for _ in range(rnd.randint(2, 5)):
        for _try in range(20):
            svc, res, verb = rnd.choice(_SVC), rnd.choice(_RES), rnd.choice(_VERB)
            new = rnd.choice(['%s:%s_%s', '%s:%s:%s', '%s_%s_%s']) % (svc, verb, res)
            if new not in names:
                break
        else:
            continue
        names.add(new)
        kind = rnd.choice(['renamed', 'renamed', 'same', None])
        check = rnd.choice(COUNTED if kind or rnd.random() < 0.5 else PLAINS)
        dep = None
        if kind == 'renamed':
            old_check = check if rnd.random() < 0.4 else rnd.choice(COUNTED)
            dep = dict(name=rnd.choice(_old_names(rnd, svc, res, verb, new)), check=old_check)
        elif kind == 'same':
            dep = dict(name=new, check=rnd.choice(COUNTED))
        policies.append(dict(name=new, check=check, dep=dep))
    # an old name that is itself (still) registered is simply a registered name: keep such cases, they are probed as registered
    olds = sorted({p['dep']['name'] for p in policies if p['dep'] and p['dep']['name'] not in names})
    rules = {}
    for p in policies:
        d = p['dep']
        if d and d['name'] != p['name'] and rnd.random() < 0.55:
            # the operator still defines the old name: an override that differs from the deprecated default, the deprecated
            # default itself, or a reference to the new policy (the form the sample generator writes)
            rules[d['name']] = rnd.choice([rnd.choice(COUNTED), rnd.choice(COUNTED), d['check'], 'rule:%s' % p['name']])
        if rnd.random() < (0.4 if d and d['name'] == p['name'] else 0.2):
            rules[p['name']] = rnd.choice(COUNTED)
    file_only = []
    for _ in range(rnd.randint(0, 2)):
        n = '%s:%s_%s' % (rnd.choice(_SVC), rnd.choice(_VERB), rnd.choice(_RES)) + rnd.choice(['', ':x', '_all'])
        if n not in names:
            rules[n] = rnd.choice(COUNTED)
            file_only.append(n)
    default_via = rnd.choice(['builtin', 'builtin', 'arg', 'conf'])
    default_name = 'default' if default_via == 'builtin' else rnd.choice(['deflt:any', 'admin_required', 'Default'])
    if rnd.random() < 0.6:
        rules[default_name] = rnd.choice(COUNTED)
    probes = [['deprecated-old-name', o] for o in olds]
    probes += [['defined-not-registered', n] for n in sorted(rules) if n not in names and n not in olds and n != default_name]
    probes.append(['default-rule', default_name])
    elsewhere = None
    if rnd.random() < 0.5:
        elsewhere = '%s:%s_%s' % (rnd.choice(_SVC), rnd.choice(_VERB), rnd.choice(_RES)) + ':other'
        probes.append(['registered-on-another-enforcer', elsewhere])
    pool = []
    for n in sorted(names) + olds:
        pool.extend(related_variants(n))
    pool.append(['affix', ''])
    rnd.shuffle(pool)
    probes += pool[:8]
    seen, uniq = set(), []
    for k, n in probes:
        if n not in names and n not in seen:
            seen.add(n)
            uniq.append([k, n])
    g = gen_case(rnd)
    return dict(related=True, policies=policies, rules=rules, source=rnd.choice(['file', 'file', 'dict']),
                fmt=rnd.choice(['json', 'yaml']), default_via=default_via, default_name=default_name,
                new_defaults=rnd.random() < 0.3, elsewhere=elsewhere, probes=uniq, probe_first=rnd.random() < 0.5,
                creds={'roles': [r for r in 'xyz' if rnd.random() < 0.5]}, target={'tenant_id': rnd.choice(['t1', 't2'])},
                exc_args=g['exc_args'], exc_kwargs=g['exc_kwargs'], debug=rnd.random() < 0.4)


def relate_modes(policy, res, name, args, kwargs):
    """The statement's relation between the three modes of one request (no scope types involved)."""
    p, r, c = res['plain'], res['raise'], res['custom']
    if p[0] == 'exc':
        return 'plain-mode-raises'
    if not p[1]:
        if not (r[0] == 'exc' and type(r[1]) is policy.PolicyNotAuthorized):
            return 'deny-without-PolicyNotAuthorized'
        if str(name) not in str(r[1]):
            return 'PolicyNotAuthorized-does-not-name-policy'
        if not (c[0] == 'exc' and type(c[1]) is CustomDenied):
            return 'deny-without-custom-exception'
        if c[1].a != args or c[1].k != kwargs:
            return 'custom-exception-arguments-lost'
    else:
        if r[0] == 'exc' or c[0] == 'exc':
            return 'allowed-request-raises'
        if not r[1] or not c[1]:
            return 'do_raise-returns-falsy'
    return None


def check_related(ctx, worlds, case):
    """authorize on names that are not registered but related to registered ones (the deprecated old name of a renamed policy,
    other letter case, surrounding white space, prefixes / suffixes, names only defined in the rule set, the default rule's
    name, a name registered on another enforcer): PolicyNotRegistered in every mode, nothing evaluated.  Conversely the
    registered names (new names of renamed policies included): authorize == enforce in every mode."""
    import os
    from pv.gen import files
    w = worlds[True]
    policy = w.policy
    args, kwargs = tuple(case['exc_args']), dict(case['exc_kwargs'])
    registered = [p['name'] for p in case['policies']]
    overrides = {'enforce_new_defaults': bool(case['new_defaults'])}
    if case['default_via'] == 'conf':
        overrides['policy_default_rule'] = case['default_name']
    default_arg = case['default_name'] if case['default_via'] == 'arg' else None
    tree = None
    try:
        if case['source'] == 'file':
            tree = files.Tree(dirs=(), main='policy.' + case['fmt'])
            tree.write(os.path.basename(tree.main), case['rules'], case['fmt'])
            conf = tree.conf(policy_dirs=[], **overrides)
            enf = policy.Enforcer(conf, default_rule=default_arg)
        else:
            conf = env.fresh_conf(**overrides)
            enf = policy.Enforcer(conf, use_conf=False, default_rule=default_arg)
        if case['elsewhere']:
            other = policy.Enforcer(conf, use_conf=False)
            other.register_default(policy.RuleDefault(case['elsewhere'], 'pvcount:x'))
        for p in case['policies']:
            dep = None
            if p['dep']:
                dep = policy.DeprecatedRule(p['dep']['name'], p['dep']['check'], deprecated_reason='renamed',
                                            deprecated_since='N')
            enf.register_default(policy.RuleDefault(p['name'], p['check'], deprecated_rule=dep))
        if case['source'] == 'dict':
            mapping = {p['name']: p['check'] for p in case['policies']}
            mapping.update(case['rules'])
            enf.set_rules(policy.Rules.from_dict(mapping))

        def run_modes(fn, name):
            res = {}
            for mode in ('plain', 'raise', 'custom'):
                c, t = json.loads(json.dumps(case['creds'])), dict(case['target'])
                if mode == 'plain':
                    res[mode] = outcome(lambda: fn(name, t, c))
                elif mode == 'raise':
                    res[mode] = outcome(lambda: fn(name, t, c, do_raise=True))
                else:
                    res[mode] = outcome(lambda: fn(name, t, c, True, CustomDenied, *args, **kwargs))
            return res

        def probe_unregistered():
            for kind, name in case['probes']:
                if name in registered:
                    continue
                ctx.count('related_name_probes')
                ctx.count('related_name_probes.' + kind)
                before = w.Odd.calls + w.Counting.calls
                ares = run_modes(enf.authorize, name)
                bad = [m for m, v in ares.items() if not (v[0] == 'exc' and isinstance(v[1], policy.PolicyNotRegistered))]
                if bad:
                    ctx.violation('authorize-unregistered-not-refused', case,
                                  {'name': name, 'relation': kind, 'modes': bad,
                                   'observed': {k: describe(v) for k, v in ares.items()}})
                if w.Odd.calls + w.Counting.calls != before:
                    ctx.violation('authorize-unregistered-evaluates', case,
                                  {'name': name, 'relation': kind, 'check_calls': w.Odd.calls + w.Counting.calls - before})

        def compare_registered():
            for name in registered:
                ctx.count('related_registered_compared')
                eres = run_modes(enf.enforce, name)
                ares = run_modes(enf.authorize, name)
                edetail = {k: describe(v) for k, v in eres.items()}
                adetail = {k: describe(v) for k, v in ares.items()}
                key = relate_modes(policy, eres, name, args, kwargs)
                if key:
                    ctx.violation(key, case, dict(edetail, api='enforce', name=name))
                akey = relate_modes(policy, ares, name, args, kwargs)
                if akey:
                    ctx.violation('authorize-' + akey, case, dict(adetail, api='authorize', name=name))
                elif adetail != edetail:
                    ctx.violation('authorize-differs-from-enforce', case, {'name': name, 'enforce': edetail, 'authorize': adetail})
                if eres['plain'][0] == 'ret':
                    ctx.count('related_registered_denied' if not eres['plain'][1] else 'related_registered_allowed')

        for debug in ((False, True) if case['debug'] else (False,)):
            cm = env.debug_logging() if debug else None
            if cm:
                cm.__enter__()
            try:
                if case['probe_first'] and not debug:
                    probe_unregistered()        # before the enforcer has loaded anything
                compare_registered()
                probe_unregistered()
            finally:
                if cm:
                    cm.__exit__(None, None, None)
        ctx.case(['related', case['policies'], case['rules'], case['probes'], case['source'], case['creds']], True, 'related-names')
        for cname, info in contracts.drain():
            ctx.violation('do_raise-returns-falsy', case, {'contract': cname, 'observed': info})
    finally:
        if tree is not None:
            tree.cleanup()


# ---- stratum `lookup`: names served by the default rule x attributes whose keys / values look like secrets x debug logging ----
LOOKUPS = {'quick': 440, 'thorough': 16000}
# words the debug dump's masking (oslo.utils) treats as secret, as whole keys and as parts of keys
SECRET_WORDS = ('password', 'token', 'secret', 'auth_token', 'admin_pass', 'private_key', 'passphrase', 'sslkey', 'new_pass',
                'configdrive')
_PLAIN_KEYS = ['kind', 'project_id', 'owner', 'type', 'scope_id', 'region']
_VALUES = ['v1', 'v2', 'v1', 'v2', '7', 7, 'password=abc', 'admin_pass=x1']


class MapCreds(collections.abc.MutableMapping):
    """Credentials as a mapping that is not a dict (what RequestContext.to_policy_values() hands out)."""

    def __init__(self, d):
        self._d = d

    def __getitem__(self, k):
        return self._d[k]

    def __setitem__(self, k, v):
        self._d[k] = v

    def __delitem__(self, k):
        del self._d[k]

    def __iter__(self):
        return iter(self._d)

    def __len__(self):
        return len(self._d)


def _attr_key(rnd, secret):
    base = rnd.choice(_PLAIN_KEYS)
    if not secret:
        return base
    w = rnd.choice(SECRET_WORDS)
    shape = rnd.choice(['whole', 'prefix', 'suffix', 'infix', 'glued', 'title', 'upper'])
    return {'whole': w, 'prefix': '%s_%s' % (w, base), 'suffix': '%s_%s' % (base, w), 'infix': 'x_%s_%s' % (w, base),
            'glued': base + w, 'title': ('%s_%s' % (w, base)).title(), 'upper': ('%s_%s' % (base, w)).upper()}[shape]


def lookup_leaf_text(leaf):
    if leaf['form'] == 'role':
        return 'role:%s' % leaf['role']
    rhs = '%%(%s)s' % leaf['tkey'] if 'tkey' in leaf else leaf['rlit']
    lhs = '.'.join(leaf['path']) if 'path' in leaf else "'%s'" % leaf['llit']
    return '%s:%s' % (lhs, rhs)


def _ref_find(value, path, match):
    """Reference for an attribute path into the credentials: a list anywhere on the way matches if one element does."""
    if isinstance(value, list):
        return any(_ref_find(v, path, match) for v in value)
    if not path:
        return str(value) == match
    if not isinstance(value, dict) or path[0] not in value:
        return False
    return _ref_find(value[path[0]], path[1:], match)


def lookup_leaf_truth(leaf, creds, target):
    if leaf['form'] == 'role':
        return leaf['role'] in creds.get('roles', [])
    if 'tkey' in leaf:
        if leaf['tkey'] not in target:
            return False
        match = str(target[leaf['tkey']])
    else:
        match = leaf['rlit']
    if 'llit' in leaf:
        return match == leaf['llit']
    return _ref_find(creds, leaf['path'], match)


def _ref_mask(x):
    """What the data would look like with every secret-looking key blanked (used ONLY to count how many requests have a
    decision that depends on such an attribute - never in an oracle)."""
    if isinstance(x, dict):
        return {k: ('***' if isinstance(k, str) and not isinstance(v, dict) and any(w in k.lower() for w in SECRET_WORDS)
                    else _ref_mask(v)) for k, v in x.items()}
    if isinstance(x, list):
        return [_ref_mask(v) for v in x]
    return x


def gen_lookup(rnd):
    """A small rule set with a default rule (built-in name / Enforcer argument / configuration; defined as deny, allow, a
    data-dependent rule, or not defined at all), credentials and a target whose keys and values contain the words the debug
    dump masks (whole keys, parts of keys, other letter case, nested dictionaries and lists, dotted target keys), rules that
    read those attributes, and names to request: defined ones, the default rule itself, names defined nowhere."""
    creds, attrs = {'roles': [r for r in 'xyz' if rnd.random() < 0.5]}, []
    for i in range(rnd.randint(2, 4)):
        key = _attr_key(rnd, rnd.random() < 0.7)
        val, other = rnd.choice(_VALUES), rnd.choice(_VALUES)
        shape = rnd.choice(['top', 'top', 'nested', 'deep', 'list', 'list-leaf', 'secret-container'])
        cont = '%s%d' % (rnd.choice(['user', 'subject', 'grant']), i)
        if shape == 'top' and key not in creds:
            creds[key] = val
            path = [key]
        elif shape == 'list-leaf' and key not in creds:
            creds[key] = [other, val]
            path = [key]
        elif shape == 'deep':
            creds[cont] = {'inner': {key: val, 'id': other}}
            path = [cont, 'inner', key]
        elif shape == 'list':
            creds[cont] = [{key: other}, {key: val, 'n': 1}]
            path = [cont, key]
        elif shape == 'secret-container':
            cont = '%s_%d' % (rnd.choice(SECRET_WORDS), i)
            creds[cont] = {key: val}
            path = [cont, key]
        else:
            creds[cont] = {key: val, 'name': other}
            path = [cont, key]
        attrs.append(dict(path=path, value=val))
    target, tkeys = {}, []
    for i in range(rnd.randint(2, 3)):
        key = _attr_key(rnd, rnd.random() < 0.7)
        if rnd.random() < 0.35:
            key = 'target.%s.%s' % (rnd.choice(SECRET_WORDS), rnd.choice(_PLAIN_KEYS))
        if key in target:
            continue
        target[key] = rnd.choice([a['value'] for a in attrs] + _VALUES[:2])
        tkeys.append(key)
    if rnd.random() < 0.3:
        target['meta'] = {'password': 'p', 'items': [{'token': 't'}]}
    leaves = []
    for i in range(rnd.randint(1, 4)):
        q = rnd.random()
        a = rnd.choice(attrs)
        if q < 0.12:
            leaves.append(dict(form='role', role=rnd.choice('xyz')))
        elif q < 0.6:
            same = [k for k in tkeys if str(target[k]) == str(a['value'])]
            leaves.append(dict(form='attr', path=a['path'], tkey=rnd.choice(same if same and rnd.random() < 0.6 else tkeys + ['absent'])))
        elif q < 0.8:
            leaves.append(dict(form='attr', path=a['path'], rlit=str(a['value'] if rnd.random() < 0.7 else rnd.choice(_VALUES))))
        else:
            k = rnd.choice(tkeys)
            leaves.append(dict(form='attr', llit=str(target[k] if rnd.random() < 0.7 else rnd.choice(_VALUES)), tkey=k))
    names, asts = [], {}
    for _ in range(rnd.randint(2, 4)):
        n = '%s:%s_%s' % (rnd.choice(_SVC), rnd.choice(_VERB), rnd.choice(_RES + ['token', 'secret']))
        if n in asts:
            continue
        asts[n] = expr.random_ast(rnd, rnd.randint(0, 2), len(leaves), p_const=0.05, names=list(names), p_ref=0.15 if names else 0.0)
        names.append(n)
    default_via = rnd.choice(['builtin', 'builtin', 'arg', 'conf'])
    default_name = 'default' if default_via == 'builtin' else rnd.choice(['deflt:any', 'admin_required', 'Default', 'fallback_token_rule'])
    default_state = rnd.choice(['deny', 'deny', 'allow', 'data', 'data', 'undefined'])
    if default_state != 'undefined':
        asts[default_name] = (('const', default_state == 'allow') if default_state in ('deny', 'allow')
                              else expr.random_ast(rnd, rnd.randint(0, 2), len(leaves), p_const=0.05, names=list(names), p_ref=0.1))
    if default_via != 'builtin' and rnd.random() < 0.4:
        asts['default'] = ('const', rnd.random() < 0.5)         # a rule that is merely CALLED default
    source = rnd.choice(['dict', 'dict', 'dict', 'dict', 'file'])
    registered = [n for n in names if rnd.random() < 0.4]
    extra = None
    if rnd.random() < 0.35:
        # a registered policy the rule set does not mention (a file-backed enforcer adds its registered check string; an
        # enforcer with in-memory rules and use_conf=False serves it like any other undefined name)
        extra = dict(name='%s:%s_%s:registered' % (rnd.choice(_SVC), rnd.choice(_VERB), rnd.choice(_RES)),
                     ast=expr.random_ast(rnd, rnd.randint(0, 1), len(leaves), p_const=0.3))
    requests = [['defined', n] for n in names] + [['default-rule-itself', default_name]]
    if 'default' in asts and default_name != 'default':
        requests.append(['defined', 'default'])
    base = rnd.choice(names)
    undefined = ['%s:%s_%s:nowhere' % (rnd.choice(_SVC), rnd.choice(_VERB), rnd.choice(_RES)),
                 'identity:%s_%s' % (rnd.choice(_VERB), rnd.choice(SECRET_WORDS)),
                 rnd.choice([base.upper(), base + 's', base[:-1], base + ' ', base.replace(':', '.'), 'rule:' + base])]
    requests += [['undefined', n] for n in undefined if n not in asts]
    if extra:
        requests.append(['registered-not-in-rule-set', extra['name']])
    g = gen_case(rnd)
    return dict(lookup=True, creds=creds, target=target, leaves=leaves, asts=asts, default_via=default_via,
                default_name=default_name, source=source, fmt=rnd.choice(['json', 'yaml']), registered=registered, extra=extra,
                requests=requests, creds_as=rnd.choice(['dict', 'dict', 'dict', 'mapping']), exc_args=g['exc_args'],
                exc_kwargs=g['exc_kwargs'])


def check_lookup(ctx, worlds, case):
    """Every requested name in the three modes of enforce and of authorize, with debug logging off and on: the modes are
    related as the statement says and PolicyNotAuthorized names the REQUESTED policy (also when the default rule served the
    request); the decision is that of the rule on the caller's own target and credentials (reference evaluation), the same
    with debug logging on; inputs unmodified."""
    import os
    from pv.gen import files
    policy = worlds[True].policy
    args, kwargs = tuple(case['exc_args']), dict(case['exc_kwargs'])
    leaves, dn, extra = case['leaves'], case['default_name'], case['extra']
    asts = case['asts']
    texts = {n: expr.spell(expr.to_tokens(a, lambda i: lookup_leaf_text(leaves[i]))) for n, a in asts.items()}
    effective = dict(asts)
    if extra:
        extra_text = expr.spell(expr.to_tokens(extra['ast'], lambda i: lookup_leaf_text(leaves[i])))
        if case['source'] == 'file':
            effective[extra['name']] = extra['ast']
    creds0, target0 = json.loads(json.dumps(case['creds'])), json.loads(json.dumps(case['target']))

    def resolve(n):
        return effective[n] if n in effective else effective.get(dn)

    def expected(n, creds, target):
        ast = resolve(n)
        if ast is None:
            return False                        # defined nowhere and no usable default rule: denied
        truth = [lookup_leaf_truth(leaf, creds, target) for leaf in leaves]
        return bool(expr.ev(ast, truth, None, resolve))

    overrides = {}
    if case['default_via'] == 'conf':
        overrides['policy_default_rule'] = dn
    default_arg = dn if case['default_via'] == 'arg' else None
    tree = None
    try:
        if case['source'] == 'file':
            tree = files.Tree(dirs=(), main='policy.' + case['fmt'])
            tree.write(os.path.basename(tree.main), texts, case['fmt'])
            enf = policy.Enforcer(tree.conf(policy_dirs=[], **overrides), default_rule=default_arg)
        else:
            enf = policy.Enforcer(env.fresh_conf(**overrides), use_conf=False, default_rule=default_arg)
        registered = list(case['registered'])
        for n in registered:
            enf.register_default(policy.RuleDefault(n, texts[n]))
        if extra:
            enf.register_default(policy.RuleDefault(extra['name'], extra_text))
            registered.append(extra['name'])
        if case['source'] == 'dict':
            enf.set_rules(policy.Rules.from_dict(texts))

        snap_c, snap_t = snapshot(creds0), snapshot(target0)

        def run_modes(fn, name):
            res, unchanged = {}, True
            for mode in ('plain', 'raise', 'custom'):
                cd, t = copy.deepcopy(creds0), copy.deepcopy(target0)
                c = MapCreds(cd) if case['creds_as'] == 'mapping' else cd
                if mode == 'plain':
                    res[mode] = outcome(lambda: fn(name, t, c))
                elif mode == 'raise':
                    res[mode] = outcome(lambda: fn(name, t, c, do_raise=True))
                else:
                    res[mode] = outcome(lambda: fn(name, t, c, True, CustomDenied, *args, **kwargs))
                if snapshot(dict(c.items())) != snap_c or snapshot(t) != snap_t:
                    unchanged = False
            return res, unchanged

        seen = {False: {}, True: {}}
        any_denied = False
        for debug in (False, True):
            suffix = '-under-debug-logging' if debug else ''
            cm = env.debug_logging() if debug else None
            if cm:
                cm.__enter__()
            try:
                for kind, name in case['requests']:
                    res, unchanged = run_modes(enf.enforce, name)
                    detail = {k: describe(v) for k, v in res.items()}
                    seen[debug][name] = detail
                    info = dict(detail, api='enforce', name=name, request=kind, debug=debug)
                    key = relate_modes(policy, res, name, args, kwargs)
                    if key:
                        ctx.violation(key + suffix, case, info)
                    if not unchanged:
                        ctx.violation('inputs-modified', case, info)
                    p = res['plain']
                    if kind == 'registered-not-in-rule-set' and case['source'] == 'dict':
                        ctx.unconstrained('registered-default-of-an-enforcer-with-in-memory-rules')
                    elif p[0] == 'ret':
                        exp = expected(name, creds0, target0)
                        if bool(p[1]) != exp:
                            ctx.violation('decision-not-that-of-the-rule-on-the-callers-data' + suffix, case,
                                          dict(info, expected=exp, rule=texts.get(name), default_rule=texts.get(dn)))
                    ares, aunchanged = run_modes(enf.authorize, name)
                    adetail = {k: describe(v) for k, v in ares.items()}
                    if name in registered:
                        akey = relate_modes(policy, ares, name, args, kwargs)
                        if akey:
                            ctx.violation('authorize-' + akey, case, dict(adetail, api='authorize', name=name, debug=debug))
                        elif adetail != detail:
                            ctx.violation('authorize-differs-from-enforce', case,
                                          {'name': name, 'enforce': detail, 'authorize': adetail, 'debug': debug})
                    else:
                        bad = [m for m, v in ares.items() if not (v[0] == 'exc' and isinstance(v[1], policy.PolicyNotRegistered))]
                        if bad:
                            ctx.violation('authorize-unregistered-not-refused', case,
                                          {'name': name, 'relation': kind, 'modes': bad, 'observed': adetail})
                    if not aunchanged:
                        ctx.violation('inputs-modified', case, dict(adetail, api='authorize', name=name, debug=debug))
                    if debug:
                        continue
                    # what this request exercised (counted once, with logging off)
                    ctx.count('lookup_requests')
                    denied = p[0] == 'ret' and not p[1]
                    any_denied = any_denied or denied
                    named = denied and res['raise'][0] == 'exc' and type(res['raise'][1]) is policy.PolicyNotAuthorized
                    if name not in effective:
                        if dn not in effective:
                            ctx.count('lookup_fallback_default_undefined')
                        elif named:
                            ctx.count('lookup_fallback_to_defined_default_denied')
                            if case['default_via'] != 'builtin':
                                ctx.count('lookup_fallback_to_other_default_name_denied')
                        elif not denied:
                            ctx.count('lookup_fallback_to_defined_default_allowed')
                    if p[0] == 'ret' and expected(name, creds0, target0) != expected(name, _ref_mask(creds0), _ref_mask(target0)):
                        ctx.count('lookup_secret_sensitive_requests')
                        if not denied:
                            ctx.count('lookup_secret_sensitive_allowed')
            finally:
                if cm:
                    cm.__exit__(None, None, None)
        for name in seen[False]:
            if seen[False][name] != seen[True][name]:
                ctx.violation('debug-logging-changes-outcome', case,
                              {'name': name, 'logging_off': seen[False][name], 'logging_on': seen[True][name]})
        ctx.count('lookup_worlds')
        if case['creds_as'] == 'mapping':
            ctx.count('lookup_mapping_creds_worlds')
        if case['source'] == 'file':
            ctx.count('lookup_file_worlds')
        ctx.case(['lookup', texts, case['creds'], case['target'], case['requests'], case['default_via'], case['source']],
                 any_denied, 'lookup')
        for cname, info in contracts.drain():
            ctx.violation('do_raise-returns-falsy', case, {'contract': cname, 'observed': info})
    finally:
        if tree is not None:
            tree.cleanup()


OVERLAPS = {'quick': 10, 'thorough': 200}
MODES =['plain', 'raise', 'custom', 'authorize-plain', 'authorize-custom']


def check_overlap(ctx, worlds, case):
    """Two requests on one enforcer at the same time, each in its own mode and with its own exception arguments: the outcome
    of each (value returned; class, positional and keyword arguments of what was raised) is that of the request alone."""
    from pv.mon import overlap
    w = worlds[True]
    w.install({})

    def mk(req):
        def make():
            c, t = json.loads(json.dumps(req['creds'])), dict(req['target'])
            args, kwargs, mode = tuple(req['exc_args']), dict(req['exc_kwargs']), req['mode']
            fn = w.enf.authorize if mode.startswith('authorize') else w.enf.enforce

            def run_():
                try:
                    if mode.endswith('plain'):
                        return ['returned', bool(fn(req['rule'], t, c))]
                    if mode == 'raise':
                        return ['returned', bool(fn(req['rule'], t, c, do_raise=True))]
                    return ['returned', bool(fn(req['rule'], t, c, True, CustomDenied, *args, **kwargs))]
                except CustomDenied as e:
                    return ['raised', 'CustomDenied', list(e.a), dict(e.k)]
                except Exception as e:
                    return ['raised', type(e).__name__, str(e)[:120]]
            return run_
        return make
    a, b = case['a'], case['b']
    ctx.case(['overlap', a, b], True, 'overlap')
    if overlap.pair(ctx, mk(a), mk(b), case, {'request_a': a, 'request_b': b}, ctx.sub_rnd('Ob', case['rseed'])):
        # the sequential outcomes themselves: a raised custom exception carries exactly the caller's arguments
        for req in (a, b):
            got = mk(req)()()
            if got[0] == 'raised' and got[1] == 'CustomDenied' and (got[2] != list(req['exc_args']) or got[3] != dict(req['exc_kwargs'])):
                ctx.violation('custom-exception-arguments-lost', case, {'request': req, 'observed': got})


def gen_overlap(ctx, i):
    r = ctx.sub_rnd('O', ctx.tier, ctx.shard, i)
    reqs = []
    for _ in range(2):
        g = gen_case(r)
        creds = {k: v for k, v in g['creds'].items() if k in ('roles', 'system_scope', 'domain_id', 'project_id', 'tenant_id')}
        mode = r.choice(MODES)
        rule = r.choice(['allow', 'deny', 'rx', 'nrx', 'owner', 'cnt', 'sys_only', 'proj_only', 'sys_deny', 'ghost'])
        if mode.startswith('authorize') and r.random() < 0.7:
            rule = r.choice(['rx', 'deny', 'cnt', 'sys_only', 'proj_only', 'sys_deny'])
        reqs.append(dict(rule=rule, mode=mode, creds=creds, target={'tenant_id': r.choice(['t1', 't2'])},
                         exc_args=g['exc_args'], exc_kwargs=g['exc_kwargs']))
    return dict(overlap=True, a=reqs[0], b=reqs[1], rseed='%s.%d.%d' % (ctx.tier, ctx.shard, i))


def describe(v):
    if v[0] == 'ret':
        return 'returns %r' % (v[1],) if isinstance(v[1], (bool, int, str, float, type(None), list, dict)) else 'returns <%s>' % type(v[1]).__name__
    return 'raises %s(%s)' % (type(v[1]).__name__, ', '.join(map(repr, getattr(v[1], 'args', ())))[:120])


def run(ctx):
    ctx.reserve(0.8)          # the strata that come last (overlapping operations) keep a fifth of the wall budget
    contracts.enforce_do_raise_truthy()
    worlds = {True: World(True), False: World(False)}
    try:
        # names served by the default rule x secret-looking attribute keys x debug logging (first: small, and never starved)
        ctx.stratum('lookup', exhaustive=False)
        for i in range(LOOKUPS[ctx.tier] // ctx.nshards + 1):
            if (i & 0xf) == 0 and ctx.expired():
                break
            lcase = gen_lookup(ctx.sub_rnd('L', ctx.tier, ctx.shard, i))
            check_lookup(ctx, worlds, lcase)
            if i % 60 == 0:
                ctx.sample(lcase, 'lookup')
        n = N[ctx.tier] // ctx.nshards + 1
        for i in range(n):
            if (i & 0x3f) == 0 and ctx.expired():
                break
            case = gen_case(ctx.rnd)
            if i % CONVENTION_EVERY == 3:
                case['conventions'] = True      # (not drawn from the case's random stream: the other triples stay what they were)
            check_case(ctx, worlds, case)
            if i % 400 == 0:
                ctx.sample(case)
        ctx.stratum('random', exhaustive=False)
        # unregistered names related to registered ones (renamed / deprecated policies, near-miss spellings)
        ctx.stratum('related-names', exhaustive=False)
        for i in range(RELATED[ctx.tier] // ctx.nshards + 1):
            if (i & 0xf) == 0 and ctx.expired():
                break
            rcase = gen_related(ctx.sub_rnd('R', ctx.tier, ctx.shard, i))
            check_related(ctx, worlds, rcase)
            if i % 100 == 0:
                ctx.sample(rcase, 'related-names')
        # invalid context objects: documented InvalidContextObject in every mode
        from oslo_policy import policy
        for bad in ([], 'creds', 5, None, ('roles',), object()):
            for do_raise in (False, True):
                o = outcome(lambda: worlds[True].enf.enforce('allow', {}, bad, do_raise=do_raise))
                ctx.count('invalid_context_probes')
                if not (o[0] == 'exc' and isinstance(o[1], policy.InvalidContextObject)):
                    ctx.violation('invalid-credentials-not-InvalidContextObject', dict(special='bad-creds'),
                                  {'creds_type': type(bad).__name__, 'observed': describe(o)})
        for k, v in contracts.EVALS.items():
            ctx.count('contract_evals.' + k, v)
        ctx.release()
        # two overlapping requests, last (the line-level scheduler slows everything that runs after it is installed)
        from pv.mon import sched
        ctx.stratum('overlap', exhaustive=False)
        try:
            for i in range(OVERLAPS[ctx.tier]):
                if ctx.expired():
                    break
                check_overlap(ctx, worlds, gen_overlap(ctx, i))
        finally:
            sched.uninstall()
    finally:
        for w in worlds.values():
            w.close()


def replay(ctx, case):
    contracts.enforce_do_raise_truthy()
    worlds = {True: World(True), False: World(False)}
    try:
        if case.get('special'):
            return
        if case.get('overlap'):
            return check_overlap(ctx, worlds, case)
        if case.get('related'):
            return check_related(ctx, worlds, case)
        if case.get('lookup'):
            return check_lookup(ctx, worlds, case)
        check_case(ctx, worlds, case)
    finally:
        for w in worlds.values():
            w.close()
