"""C05 - attribute checks compare a literal or credential path with the target value.

Differential monitor: the real GenericCheck (through Enforcer.enforce) against
a reference walk written from the statement, independent of `ast`."""
import re

from pv.core import env

ID = 'C05'
LEVEL = 'exploration'
TECHNIQUE = 'differential runtime monitor: real GenericCheck via Enforcer.enforce vs reference literal/path walk over generated nested credentials; overlapping evaluations under a deterministic line-level thread scheduler (sys.monitoring)'
RULE = ('cases = lhs (literal: quoted string in either quote style, integer, float, True/False/None; or dotted path of '
        'depth 1-4, including spellings that look like literals such as None / True.x / 1.5) x rhs (literal text, '
        '%(key)s, mixed prefix%(key)s) x credentials from a recursive generator (dicts, lists of dicts, lists of lists, '
        'every JSON scalar at every position, missing siblings) x flat targets with every JSON scalar type x context '
        '(alone, under not, beside constants). Strata `context-sequence` (a RequestContext whose attributes are rebound / which is copied between calls) and `overlap` (two requests evaluating the same check at the same time, every single pre-emption). Non-trivial = the reference allows, or the path runs into a list / a '
        'non-container / a missing key; distinct = distinct (rule, target, creds).')
ASSUMPTIONS = ['str() of a Python value is the "string form" the statement means',
               'one corner is left unconstrained (deny or recursive any-match accepted, raising not accepted): a list '
               'nested directly in a list while path segments remain',
               'lhs never equals a registered kind (role, rule, http, https); both-end-quoted tokens are string tokens, not checks']
LEVEL_TEXT = ('Seeded sampling of (check, credentials, target) with an independent reference walk; the structure '
              'generator puts every JSON type at every path position, which is where the failure modes live.')
LEVEL_NOTE = 'trusted: the reference walk (20 lines, from the statement); Python str() as string form'
PLAN = {'quick': dict(shards=4, wall=120), 'thorough': dict(shards=16, wall=400)}
MIN = {'evaluations': 5000, 'allow_decisions': 150, 'deny_decisions': 1000, 'list_fanout_cases': 200, 'context_sequence_decisions': 500, 'overlapping_evaluations': 100}
ANCHORS = ['oslo_policy._checks:GenericCheck.__call__', 'oslo_policy._checks:GenericCheck._find_in_dict',
           'oslo_policy.policy:Enforcer.enforce']
REQUIRED_ANCHORS = ['oslo_policy.policy:Enforcer.enforce']
N = {'quick': 160000, 'thorough': 3000000}

KEYS = ['a', 'b', 'c', 'd', 'x1', '_y', 'None', 'True']
SCAL = [None, True, False, 0, 1, -3, 1.5, 2.0, '', 's', 'APPLES', '1', 'True', 'None', '1.5', "['s']", "{'a': 1}", '[]', '{}',
        'CORP\\alice', 'tab\there', 'it\'s "q"', 'nb\xa0sp', 'é', 'new\nline', 'back\\', "'", '"', 'a b', '\x7f', 'ü:ü']
UNC = 'UNCONSTRAINED'


def gen_value(rnd, depth):
    r = rnd.random()
    if depth <= 0 or r < 0.3:
        return rnd.choice(SCAL)
    if r < 0.65:
        return {k: gen_value(rnd, depth - 1) for k in rnd.sample(KEYS, rnd.randint(0, 3))}
    return [gen_value(rnd, depth - 1) for _ in range(rnd.randint(0, 3))]


def walk(v, segs, match, stats):
    """Reference: follow the path; a list fans out with any-match."""
    if not segs:
        return match == str(v)
    if not isinstance(v, dict):
        stats['noncontainer'] = True
        return False                      # path runs into a value that is not a container
    if segs[0] not in v:
        stats['missing'] = True
        return False                      # missing credential attribute
    nv = v[segs[0]]
    rest = segs[1:]
    if isinstance(nv, list):
        stats['list'] = True
        res = []
        for e in nv:
            if isinstance(e, list) and rest:
                return UNC                # open corner: list directly in a list with path left
            res.append(walk(e, rest, match, stats))
        if UNC in res:
            return UNC
        return any(r is True for r in res)
    return walk(nv, rest, match, stats)


LITERALS = [("'spam'", 'spam'), ('"spam"', 'spam'), ("'APPLES'", 'APPLES'), ('"s"', 's'), ("'1'", '1'), ('1', '1'),
            ('0', '0'), ('-3', '-3'), ('42', '42'), ('1.5', '1.5'), ('2.0', '2.0'), ('1.50', '1.5'), ('-0.5', '-0.5'),
            ('True', 'True'), ('False', 'False'), ('None', 'None'), ("'True'", 'True'), ("'None'", 'None'), ("''", '')]
RHS = ['s', 'APPLES', '1', 'True', 'None', '1.5', 'spam', '%(t1)s', '%(t2)s', 'p%(t1)s', '%(t1)s%(t2)s', "['s']",
       "{'a':1}", '-3', '2.0', '0', 'False', '[]', '%(t3)s',
       # placeholder keys that are not identifiers: a target key is any string
       '%(t.1)s', '%(t-2)s', 'p%(os:t)s', '%(target.user.id)s', '%(t.1)s%(t1)s']
PH = re.compile(r'%\(([^)]+)\)s')


def gen_case(rnd):
    creds = gen_value(rnd, 4)
    if not isinstance(creds, dict):
        creds = {'a': creds}
    if rnd.random() < 0.3:
        creds['roles'] = []
    target = {k: rnd.choice(SCAL) for k in rnd.sample(['t1', 't2', 't.1', 't-2', 'os:t', 'target.user.id'], rnd.randint(0, 4))}
    rhs = rnd.choice(RHS)
    if rnd.random() < 0.3:
        lhs, val = rnd.choice(LITERALS)
        mode = 'lit'
    else:
        mode = 'path'
        if rnd.random() < 0.75:
            # follow the structure so that deep positions are actually reached
            segs = []
            v = creds
            dead = False
            for _ in range(rnd.randint(1, 4)):
                while isinstance(v, list) and v:
                    v = rnd.choice(v)
                if isinstance(v, dict) and v and rnd.random() < 0.9:
                    k = rnd.choice(sorted(v))
                    segs.append(k)
                    v = v[k]
                else:
                    segs.append(rnd.choice(KEYS))
                    v = None
                    dead = True
            lhs = '.'.join(segs)
            reached = None if dead else [v]
        else:
            lhs = '.'.join(rnd.choice(KEYS) for _ in range(rnd.randint(1, 4)))
            reached = None
        val = None
        lit = dict(LITERALS)
        if lhs in lit:                   # a path that spells a literal (None, True) IS a literal
            mode, val = 'lit', lit[lhs]
        if mode == 'path' and rnd.random() < 0.6:
            # aim the right-hand side at the value actually there
            if reached is not None:
                # the value the generated path actually leads to, through randomly chosen list elements - so that the
                # matching element is as often a later one (after scalars / None / lists) as the first
                v = reached[0]
            else:
                v = creds
                for s in lhs.split('.'):
                    while isinstance(v, list) and v:
                        v = rnd.choice(v)
                    v = v.get(s) if isinstance(v, dict) else None
            while isinstance(v, list) and v:
                v = rnd.choice(v)
            sv = str(v)
            if sv and not any(ch.isspace() for ch in sv) and '%' not in sv and not sv.endswith(')') and \
                    sv[-1] not in '"\'':
                rhs = sv
            else:
                target['t3'] = v
                rhs = '%(t3)s'
    wrap = rnd.choice(['', '', '', 'not ', 'and@', 'or!'])
    return dict(lhs=lhs, rhs=rhs, mode=mode, val=val, target=target, creds=creds, wrap=wrap)


def expected(case, stats):
    keys = PH.findall(case['rhs'])
    if any(k not in case['target'] for k in keys):
        stats['missing_target_key'] = True
        base = False                     # missing target key denies
    else:
        match = PH.sub(lambda m: str(case['target'][m.group(1)]), case['rhs'])
        if case['mode'] == 'lit':
            base = match == case['val']
        else:
            base = walk(case['creds'], case['lhs'].split('.'), match, stats)
    if base == UNC:
        return UNC
    return (not base) if case['wrap'] == 'not ' else base


def rule_text(case):
    chk = '%s:%s' % (case['lhs'], case['rhs'])
    return {'': chk, 'not ': 'not ' + chk, 'and@': chk + ' and @', 'or!': '! or ' + chk}[case['wrap']]


def check_case(ctx, real, case):
    policy, enf = real
    stats = {}
    want = expected(case, stats)
    rule = rule_text(case)
    base_allows = (want is True and case['wrap'] != 'not ') or (want is False and case['wrap'] == 'not ')
    ctx.case([rule, case['target'], case['creds']], nontrivial=base_allows or bool(stats))
    if stats.get('list'):
        ctx.count('list_fanout_cases')
    for k in stats:
        ctx.count('path_event.' + k)
    try:
        enf.set_rules(policy.Rules.from_dict({'p': rule}))
        import copy
        got = bool(enf.enforce('p', copy.deepcopy(case['target']), copy.deepcopy(case['creds'])))
    except Exception as e:
        got = 'EXC:' + type(e).__name__
    ctx.count('allow_decisions' if got is True else 'deny_decisions' if got is False else 'exceptions')
    if want == UNC:
        ctx.unconstrained('list-in-list-with-path-left')
        if isinstance(got, str):
            ctx.violation('path-walk-raises' if got == 'EXC:TypeError' else 'missing-target-key-raises' if got == 'EXC:KeyError' else 'literal-attempt-raises', case, {'rule': rule, 'creds': case['creds'], 'target': case['target'],
                                                     'observed': got, 'expected': 'a decision (either one)'})
        return
    if got != want:
        if isinstance(got, str):
            key = 'path-walk-raises' if (case['mode'] == 'path' and got == 'EXC:TypeError') else 'literal-attempt-raises'
        elif case['mode'] == 'lit':
            key = 'literal-comparison-mismatch'
        elif stats.get('list'):
            key = 'list-fanout-mismatch'
        else:
            key = 'path-comparison-mismatch'
        ctx.violation(key, case, {'rule': rule, 'creds': case['creds'], 'target': case['target'],
                                  'expected': want, 'observed': got})


def check_context_sequence(ctx, real, rnd, fixed=None):
    """Credentials given as a RequestContext whose attributes the service rebinds between calls (and copies of it):
    every call is decided on the attribute values at that moment.  `fixed`: the case of a replay file."""
    from oslo_context import context
    import copy as _copy
    policy, enf = real
    if fixed is not None:
        attr, rule, steps = fixed['attr'], fixed['rule'], fixed['steps']
    else:
        attr = rnd.choice(['project_id', 'user_id', 'domain_id'])
        rule = rnd.choice(['%s:%%(v)s' % attr, 'not %s:%%(v)s' % attr, '%s:%%(v)s and @' % attr])
        steps = []
        for _ in range(rnd.randint(2, 5)):
            op = rnd.choice(['rebind', 'rebind', 'copy', 'none'])
            val = rnd.choice(['v0', 'v1', 'v2', None]) if op == 'rebind' else rnd.choice(['v1', 'v3']) if op == 'copy' else None
            steps.append([op, val, rnd.choice(['v0', 'v1', 'v2', 'v3', 'None'])])
    enf.set_rules(policy.Rules.from_dict({'p': rule}))
    c = context.RequestContext(**{attr: 'v0', 'roles': ['r']})
    cur = 'v0'
    for step, (op, val, tv) in enumerate(steps):
        if op == 'rebind':
            cur = val
            setattr(c, attr, cur)
        elif op == 'copy':
            c = _copy.copy(c)
            cur = val
            setattr(c, attr, cur)
        want = (str(cur) == tv)
        if rule.startswith('not '):
            want = not want
        try:
            got = bool(enf.enforce('p', {'v': tv}, c))
        except Exception as e:
            got = 'EXC:' + type(e).__name__
        ctx.count('context_sequence_decisions')
        if got != want:
            ctx.violation('stale-credentials-from-request-context', dict(context_sequence=True, rule=rule, attr=attr, steps=steps),
                          {'rule': rule, 'attribute': attr, 'value_now': cur, 'target_value': tv, 'step': step, 'op': op,
                           'expected': want, 'observed': got})
            return
    ctx.case(['ctx-seq', rule, attr], nontrivial=True, stratum='context-sequence')


def check_overlap(ctx, real, rnd, fixed=None):
    """Two requests evaluate the same attribute check at the same time with different targets (deterministic scheduler,
    every single pre-emption of one by the other): each is decided as if it ran alone.  `fixed`: the case of a replay file."""
    from pv.mon import sched
    policy, enf = real
    rule = fixed['rule'] if fixed else rnd.choice(['project_id:%(pid)s', 'not project_id:%(pid)s', "'p1':%(pid)s", 'a.b:%(pid)s or project_id:%(pid)s'])
    enf.set_rules(policy.Rules.from_dict({'p': rule}))
    creds = {'project_id': 'p2', 'a': {'b': 'zz'}, 'roles': []}

    def mk(pid):
        return lambda: (lambda: bool(enf.enforce('p', {'pid': pid}, dict(creds))))
    ref = None
    for k, ra, rb in sched.overlap_results(mk('p1'), mk('p2')):
        ctx.count('overlapping_evaluations')
        if k == 0:
            ref = (ra, rb)
            continue
        if (ra, rb) != ref:
            ctx.violation('decision-depends-on-a-concurrent-evaluation', dict(overlap=True, rule=rule),
                          {'rule': rule, 'credentials': creds, 'targets': ['p1', 'p2'], 'alone': list(ref), 'overlapping': [ra, rb],
                           'a_preempted_at_boundary': k})
            return
    ctx.case(['overlap', rule], nontrivial=True, stratum='overlap')


def run(ctx):
    ctx.reserve(0.8)          # the strata that come last (overlapping operations) keep a fifth of the wall budget
    from oslo_policy import policy
    enf = policy.Enforcer(env.fresh_conf(), use_conf=False)
    n = N[ctx.tier] // ctx.nshards + 1
    for i in range(n):
        if (i & 0x1ff) == 0 and ctx.expired():
            break
        case = gen_case(ctx.rnd)
        check_case(ctx, (policy, enf), case)
        if i % 8000 == 0:
            ctx.sample({'rule': rule_text(case), 'target': case['target'], 'creds': case['creds']})
        if i % 40 == 0:
            check_context_sequence(ctx, (policy, enf), ctx.rnd)
    ctx.stratum('random', exhaustive=False)
    ctx.release()
    from pv.mon import sched
    try:
        for i in range(12 if ctx.tier == 'quick' else 200):
            if ctx.expired():
                break
            check_overlap(ctx, (policy, enf), ctx.rnd)
    finally:
        sched.uninstall()


def replay(ctx, case):
    from oslo_policy import policy
    enf = policy.Enforcer(env.fresh_conf(), use_conf=False)
    if case.get('context_sequence'):
        return check_context_sequence(ctx, (policy, enf), None, fixed=case)
    if case.get('overlap'):
        from pv.mon import sched
        try:
            return check_overlap(ctx, (policy, enf), None, fixed=case)
        finally:
            sched.uninstall()
    check_case(ctx, (policy, enf), case)
