"""C05 - attribute checks compare a literal or credential path with the target value.

Differential monitor: the real GenericCheck (through Enforcer.enforce) against
a reference walk written from the statement, independent of `ast`."""
import collections
import collections.abc
import re
import types

from pv.core import env

ID = 'C05'
LEVEL = 'exploration'
TECHNIQUE = 'differential runtime monitor: real GenericCheck via Enforcer.enforce vs reference literal/path walk over generated nested credentials; overlapping evaluations under a deterministic line-level thread scheduler (sys.monitoring)'
RULE = ('cases = lhs (literal: quoted string in either quote style, integer, float, True/False/None; or dotted path of '
        'depth 1-4, including spellings that look like literals such as None / True.x / 1.5) x rhs (literal text, '
        '%(key)s, mixed prefix%(key)s) x credentials from a recursive generator (dicts, lists of dicts, lists of lists, '
        'every JSON scalar at every position, missing siblings) x flat targets with every JSON scalar type x context '
        '(alone, under not, beside constants). Stratum `containers`: the same generated credential structures presented in other container types - the whole credentials as a collections.UserDict / another MutableMapping subclass / the to_policy_values() object of a RequestContext subclass that adds service attributes / that RequestContext itself, nested documents as MappingProxyType / UserDict / OrderedDict / a read-only Mapping, lists as tuples (a tuple on the walked path, or a non-dict container as the compared value, is left unconstrained) - each decided through Enforcer.enforce and directly on the check object. Strata `context-sequence` (a RequestContext whose attributes are rebound / which is copied between calls) and `overlap` (two requests evaluating the same check at the same time, every single pre-emption). Non-trivial = the reference allows, or the path runs into a list / a '
        'non-container / a missing key; distinct = distinct (rule, target, creds).')
ASSUMPTIONS = ['str() of a Python value is the "string form" the statement means',
               'one corner is left unconstrained (deny or recursive any-match accepted, raising not accepted): a list '
               'nested directly in a list while path segments remain',
               'a tuple is not taken to be "a list" of the statement: either decision is accepted once the walk touches one (raising is not); the string form of a non-dict container is not pinned',
               'lhs never equals a registered kind (role, rule, http, https); both-end-quoted tokens are string tokens, not checks']
LEVEL_TEXT = ('Seeded sampling of (check, credentials, target) with an independent reference walk; the structure '
              'generator puts every JSON type at every path position, which is where the failure modes live.')
LEVEL_NOTE = 'trusted: the reference walk (20 lines, from the statement); Python str() as string form'
PLAN = {'quick': dict(shards=4, wall=120), 'thorough': dict(shards=16, wall=400)}
MIN = {'evaluations': 5000, 'allow_decisions': 150, 'deny_decisions': 1000, 'list_fanout_cases': 200, 'context_sequence_decisions': 500, 'overlapping_evaluations': 100, 'container_presentation_decisions': 10000, 'container_presentation_allows': 300}
ANCHORS = ['oslo_policy._checks:GenericCheck.__call__', 'oslo_policy._checks:GenericCheck._find_in_dict',
           'oslo_policy.policy:Enforcer.enforce']
REQUIRED_ANCHORS = ['oslo_policy.policy:Enforcer.enforce']
N = {'quick': 160000, 'thorough': 3000000}

KEYS = ['a', 'b', 'c', 'd', 'x1', '_y', 'None', 'True']
SCAL = [None, True, False, 0, 1, -3, 1.5, 2.0, '', 's', 'APPLES', '1', 'True', 'None', '1.5', "['s']", "{'a': 1}", '[]', '{}',
        'CORP\\alice', 'tab\there', 'it\'s "q"', 'nb\xa0sp', 'é', 'new\nline', 'back\\', "'", '"', 'a b', '\x7f', 'ü:ü']
UNC = 'UNCONSTRAINED'


def gen_value(rnd, depth):
    r = rnd.random()
    if depth <= 0 or r < 0.3:
        return rnd.choice(SCAL)
    if r < 0.65:
        return {k: gen_value(rnd, depth - 1) for k in rnd.sample(KEYS, rnd.randint(0, 3))}
    return [gen_value(rnd, depth - 1) for _ in range(rnd.randint(0, 3))]


def exotic(v):
    """Does the value contain a container other than plain dict / list?"""
    if isinstance(v, tuple) or (isinstance(v, collections.abc.Mapping) and type(v) is not dict):
        return True
    if isinstance(v, dict):
        return any(exotic(e) for e in v.values())
    if isinstance(v, list):
        return any(exotic(e) for e in v)
    return False


def walk(v, segs, match, stats):
    """Reference: follow the path; a list fans out with any-match."""
    if isinstance(v, tuple):
        stats['tuple'] = True
        return UNC                        # open: the statement speaks of lists only
    if not segs:
        if isinstance(v, (collections.abc.Mapping, list)) and exotic(v):
            return UNC                    # open: string form of a container that is not a plain dict / list
        return match == str(v)
    if not isinstance(v, collections.abc.Mapping):
        stats['noncontainer'] = True
        return False                      # path runs into a value that is not a container
    if segs[0] not in v:
        stats['missing'] = True
        return False                      # missing credential attribute
    nv = v[segs[0]]
    rest = segs[1:]
    if isinstance(nv, list):
        stats['list'] = True
        res = []
        for e in nv:
            if isinstance(e, list) and rest:
                return UNC                # open corner: list directly in a list with path left
            res.append(walk(e, rest, match, stats))
        if UNC in res:
            return UNC
        return any(r is True for r in res)
    return walk(nv, rest, match, stats)


LITERALS = [("'spam'", 'spam'), ('"spam"', 'spam'), ("'APPLES'", 'APPLES'), ('"s"', 's'), ("'1'", '1'), ('1', '1'),
            ('0', '0'), ('-3', '-3'), ('42', '42'), ('1.5', '1.5'), ('2.0', '2.0'), ('1.50', '1.5'), ('-0.5', '-0.5'),
            ('True', 'True'), ('False', 'False'), ('None', 'None'), ("'True'", 'True'), ("'None'", 'None'), ("''", '')]
RHS = ['s', 'APPLES', '1', 'True', 'None', '1.5', 'spam', '%(t1)s', '%(t2)s', 'p%(t1)s', '%(t1)s%(t2)s', "['s']",
       "{'a':1}", '-3', '2.0', '0', 'False', '[]', '%(t3)s',
       # placeholder keys that are not identifiers: a target key is any string
       '%(t.1)s', '%(t-2)s', 'p%(os:t)s', '%(target.user.id)s', '%(t.1)s%(t1)s']
PH = re.compile(r'%\(([^)]+)\)s')


def gen_case(rnd, creds=None):
    if creds is None:
        creds = gen_value(rnd, 4)
        if not isinstance(creds, dict):
            creds = {'a': creds}
        if rnd.random() < 0.3:
            creds['roles'] = []
    target = {k: rnd.choice(SCAL) for k in rnd.sample(['t1', 't2', 't.1', 't-2', 'os:t', 'target.user.id'], rnd.randint(0, 4))}
    rhs = rnd.choice(RHS)
    if rnd.random() < 0.3:
        lhs, val = rnd.choice(LITERALS)
        mode = 'lit'
    else:
        mode = 'path'
        if rnd.random() < 0.75:
            # follow the structure so that deep positions are actually reached
            segs = []
            v = creds
            dead = False
            for _ in range(rnd.randint(1, 4)):
                while isinstance(v, list) and v:
                    v = rnd.choice(v)
                if isinstance(v, dict) and v and rnd.random() < 0.9:
                    k = rnd.choice(sorted(v))
                    segs.append(k)
                    v = v[k]
                else:
                    segs.append(rnd.choice(KEYS))
                    v = None
                    dead = True
            lhs = '.'.join(segs)
            reached = None if dead else [v]
        else:
            lhs = '.'.join(rnd.choice(KEYS) for _ in range(rnd.randint(1, 4)))
            reached = None
        val = None
        lit = dict(LITERALS)
        if lhs in lit:                   # a path that spells a literal (None, True) IS a literal
            mode, val = 'lit', lit[lhs]
        if mode == 'path' and rnd.random() < 0.6:
            # aim the right-hand side at the value actually there
            if reached is not None:
                # the value the generated path actually leads to, through randomly chosen list elements - so that the
                # matching element is as often a later one (after scalars / None / lists) as the first
                v = reached[0]
            else:
                v = creds
                for s in lhs.split('.'):
                    while isinstance(v, list) and v:
                        v = rnd.choice(v)
                    v = v.get(s) if isinstance(v, dict) else None
            while isinstance(v, list) and v:
                v = rnd.choice(v)
            sv = str(v)
            if sv and not any(ch.isspace() for ch in sv) and '%' not in sv and not sv.endswith(')') and \
                    sv[-1] not in '"\'':
                rhs = sv
            else:
                target['t3'] = v
                rhs = '%(t3)s'
    wrap = rnd.choice(['', '', '', 'not ', 'and@', 'or!'])
    return dict(lhs=lhs, rhs=rhs, mode=mode, val=val, target=target, creds=creds, wrap=wrap)


def expected(case, stats):
    keys = PH.findall(case['rhs'])
    if any(k not in case['target'] for k in keys):
        stats['missing_target_key'] = True
        base = False                     # missing target key denies
    else:
        match = PH.sub(lambda m: str(case['target'][m.group(1)]), case['rhs'])
        if case['mode'] == 'lit':
            base = match == case['val']
        else:
            base = walk(case['creds'], case['lhs'].split('.'), match, stats)
    if base == UNC:
        return UNC
    return (not base) if case['wrap'] == 'not ' else base


def rule_text(case):
    chk = '%s:%s' % (case['lhs'], case['rhs'])
    return {'': chk, 'not ': 'not ' + chk, 'and@': chk + ' and @', 'or!': '! or ' + chk}[case['wrap']]


def check_case(ctx, real, case):
    policy, enf = real
    stats = {}
    want = expected(case, stats)
    rule = rule_text(case)
    base_allows = (want is True and case['wrap'] != 'not ') or (want is False and case['wrap'] == 'not ')
    ctx.case([rule, case['target'], case['creds']], nontrivial=base_allows or bool(stats))
    if stats.get('list'):
        ctx.count('list_fanout_cases')
    for k in stats:
        ctx.count('path_event.' + k)
    try:
        enf.set_rules(policy.Rules.from_dict({'p': rule}))
        import copy
        got = bool(enf.enforce('p', copy.deepcopy(case['target']), copy.deepcopy(case['creds'])))
    except Exception as e:
        got = 'EXC:' + type(e).__name__
    ctx.count('allow_decisions' if got is True else 'deny_decisions' if got is False else 'exceptions')
    if want == UNC:
        ctx.unconstrained('list-in-list-with-path-left')
        if isinstance(got, str):
            ctx.violation('path-walk-raises' if got == 'EXC:TypeError' else 'missing-target-key-raises' if got == 'EXC:KeyError' else 'literal-attempt-raises', case, {'rule': rule, 'creds': case['creds'], 'target': case['target'],
                                                     'observed': got, 'expected': 'a decision (either one)'})
        return
    if got != want:
        if isinstance(got, str):
            key = 'path-walk-raises' if (case['mode'] == 'path' and got == 'EXC:TypeError') else 'literal-attempt-raises'
        elif case['mode'] == 'lit':
            key = 'literal-comparison-mismatch'
        elif stats.get('list'):
            key = 'list-fanout-mismatch'
        else:
            key = 'path-comparison-mismatch'
        ctx.violation(key, case, {'rule': rule, 'creds': case['creds'], 'target': case['target'],
                                  'expected': want, 'observed': got})


class _MutMap(collections.abc.MutableMapping):
    """A MutableMapping that is not a dict (what Enforcer.enforce documents to accept)."""

    def __init__(self, data):
        self._d = dict(data)

    def __getitem__(self, k):
        return self._d[k]

    def __setitem__(self, k, v):
        self._d[k] = v

    def __delitem__(self, k):
        del self._d[k]

    def __iter__(self):
        return iter(self._d)

    def __len__(self):
        return len(self._d)


class _ROMap(collections.abc.Mapping):
    """A read-only Mapping that is not a dict."""

    def __init__(self, data):
        self._d = dict(data)

    def __getitem__(self, k):
        return self._d[k]

    def __iter__(self):
        return iter(self._d)

    def __len__(self):
        return len(self._d)


TOPS = ['userdict', 'mutablemapping', 'policy-values', 'request-context', 'dict']
NESTED = ['dict', 'mappingproxy', 'userdict', 'ordereddict', 'romap', 'mixed']
NESTED_MAKE = {'dict': dict, 'mappingproxy': lambda d: types.MappingProxyType(dict(d)), 'userdict': collections.UserDict,
               'ordereddict': collections.OrderedDict, 'romap': _ROMap}
CTX_ATTRS = ['project_id', 'user_id', 'domain_id', 'roles']
_CTX_CLASS = []


def _context_class():
    """A service's RequestContext subclass that adds its own attributes to the policy values (the documented extension point)."""
    if not _CTX_CLASS:
        from oslo_context import context

        class ServiceContext(context.RequestContext):
            def __init__(self, extra, **kw):
                super().__init__(overwrite=False, **kw)
                self._extra = extra

            def to_policy_values(self):
                values = super().to_policy_values()
                for k, v in self._extra.items():
                    values[k] = v
                return values
        _CTX_CLASS.append(ServiceContext)
    return _CTX_CLASS[0]


def present(creds, spec):
    """The JSON-shaped credentials of a case in the container types the presentation `spec` names.  Deterministic in
    (creds, spec): the n-th nested dict / list in traversal order gets its type from (n + salt)."""
    n = [spec['salt']]

    def conv(v):
        if isinstance(v, dict):
            kind = spec['nested']
            if kind == 'mixed':
                n[0] += 1
                kind = NESTED[n[0] % 5]
            return NESTED_MAKE[kind]({k: conv(e) for k, e in v.items()})
        if isinstance(v, list):
            out = [conv(e) for e in v]
            n[0] += 1
            if spec['tuples'] == 'all' or (spec['tuples'] == 'some' and n[0] % 2):
                return tuple(out)
            return out
        return v
    top = {k: conv(e) for k, e in creds.items()}
    if spec['top'] == 'userdict':
        return collections.UserDict(top)
    if spec['top'] == 'mutablemapping':
        return _MutMap(top)
    if spec['top'] in ('policy-values', 'request-context'):
        kw = {k: top.pop(k) for k in CTX_ATTRS if k in top}
        c = _context_class()(top, **kw)
        return c if spec['top'] == 'request-context' else c.to_policy_values()
    return top


def check_containers(ctx, real, rnd, fixed=None):
    """The credential structures of the main stratum presented in other container types (see RULE), decided through
    Enforcer.enforce and directly on the check object; the reference walks an equal, separately built presentation."""
    import copy
    policy, enf = real
    if fixed is not None:
        case, spec = fixed, fixed['present']
    else:
        spec = dict(top=rnd.choice(TOPS), nested=rnd.choice(NESTED), tuples=rnd.choice(['none', 'none', 'some', 'all']),
                    salt=rnd.randint(0, 9))
        if spec['top'] == 'dict' and spec['nested'] == 'dict' and spec['tuples'] == 'none':
            spec['nested'] = 'mixed'
        creds = gen_value(rnd, 4)
        if not isinstance(creds, dict):
            creds = {'a': creds}
        if spec['top'] in ('policy-values', 'request-context'):
            # attributes every RequestContext has, next to the service's own
            for k in rnd.sample(CTX_ATTRS, rnd.randint(1, 3)):
                creds[k] = [rnd.choice(SCAL) for _ in range(rnd.randint(0, 3))] if k == 'roles' else rnd.choice(SCAL)
        elif rnd.random() < 0.3:
            creds['roles'] = []
        case = gen_case(rnd, creds)
        case['present'] = spec
    stats = {}
    ref = present(case['creds'], spec)
    if spec['top'] == 'request-context':
        ref = dict(ref.to_policy_values().items())       # a RequestContext stands for its policy values
    plain = dict(case, creds=ref)
    want = expected(plain, stats)
    rule = rule_text(case)
    base_allows = (want is True and case['wrap'] != 'not ') or (want is False and case['wrap'] == 'not ')
    ctx.case([rule, case['target'], case['creds'], sorted(spec.items())], nontrivial=base_allows or bool(stats), stratum='containers')
    ctx.count('container.top.' + spec['top'])
    ctx.count('container.nested.' + spec['nested'])
    if base_allows:
        ctx.count('container_presentation_allows')
    for via in ('enforce', 'check'):
        if via == 'check' and spec['top'] == 'request-context':
            continue                                     # only enforce() takes the context object itself
        try:
            rules = policy.Rules.from_dict({'p': rule})
            given = present(case['creds'], spec)
            if via == 'enforce':
                enf.set_rules(rules)
                got = bool(enf.enforce('p', copy.deepcopy(case['target']), given))
            else:
                got = bool(rules['p'](copy.deepcopy(case['target']), given, enf))
        except Exception as e:
            got = 'EXC:' + type(e).__name__
        ctx.count('container_presentation_decisions')
        if isinstance(got, str):
            ctx.violation('container-credentials-raise', case, {'rule': rule, 'creds': case['creds'], 'presentation': spec, 'via': via,
                                                                'target': case['target'], 'observed': got,
                                                                'expected': 'a decision' if want == UNC else want})
            return
        if want == UNC:
            ctx.unconstrained('tuple-on-path' if stats.get('tuple') else 'container-string-form' if not stats.get('list') else 'list-in-list-or-container-string-form')
            continue
        if got != want:
            key = 'literal-comparison-mismatch' if case['mode'] == 'lit' else 'container-credentials-mismatch'
            ctx.violation(key, case, {'rule': rule, 'creds': case['creds'], 'presentation': spec, 'via': via, 'target': case['target'],
                                      'expected': want, 'observed': got})
            return


def check_context_sequence(ctx, real, rnd, fixed=None):
    """Credentials given as a RequestContext whose attributes the service rebinds between calls (and copies of it):
    every call is decided on the attribute values at that moment.  `fixed`: the case of a replay file."""
    from oslo_context import context
    import copy as _copy
    policy, enf = real
    if fixed is not None:
        attr, rule, steps = fixed['attr'], fixed['rule'], fixed['steps']
    else:
        attr = rnd.choice(['project_id', 'user_id', 'domain_id'])
        rule = rnd.choice(['%s:%%(v)s' % attr, 'not %s:%%(v)s' % attr, '%s:%%(v)s and @' % attr])
        steps = []
        for _ in range(rnd.randint(2, 5)):
            op = rnd.choice(['rebind', 'rebind', 'copy', 'none'])
            val = rnd.choice(['v0', 'v1', 'v2', None]) if op == 'rebind' else rnd.choice(['v1', 'v3']) if op == 'copy' else None
            steps.append([op, val, rnd.choice(['v0', 'v1', 'v2', 'v3', 'None'])])
    enf.set_rules(policy.Rules.from_dict({'p': rule}))
    c = context.RequestContext(**{attr: 'v0', 'roles': ['r']})
    cur = 'v0'
    for step, (op, val, tv) in enumerate(steps):
        if op == 'rebind':
            cur = val
            setattr(c, attr, cur)
        elif op == 'copy':
            c = _copy.copy(c)
            cur = val
            setattr(c, attr, cur)
        want = (str(cur) == tv)
        if rule.startswith('not '):
            want = not want
        try:
            got = bool(enf.enforce('p', {'v': tv}, c))
        except Exception as e:
            got = 'EXC:' + type(e).__name__
        ctx.count('context_sequence_decisions')
        if got != want:
            ctx.violation('stale-credentials-from-request-context', dict(context_sequence=True, rule=rule, attr=attr, steps=steps),
                          {'rule': rule, 'attribute': attr, 'value_now': cur, 'target_value': tv, 'step': step, 'op': op,
                           'expected': want, 'observed': got})
            return
    ctx.case(['ctx-seq', rule, attr], nontrivial=True, stratum='context-sequence')


def check_overlap(ctx, real, rnd, fixed=None):
    """Two requests evaluate the same attribute check at the same time with different targets (deterministic scheduler,
    every single pre-emption of one by the other): each is decided as if it ran alone.  `fixed`: the case of a replay file."""
    from pv.mon import sched
    policy, enf = real
    rule = fixed['rule'] if fixed else rnd.choice(['project_id:%(pid)s', 'not project_id:%(pid)s', "'p1':%(pid)s", 'a.b:%(pid)s or project_id:%(pid)s'])
    enf.set_rules(policy.Rules.from_dict({'p': rule}))
    creds = {'project_id': 'p2', 'a': {'b': 'zz'}, 'roles': []}

    def mk(pid):
        return lambda: (lambda: bool(enf.enforce('p', {'pid': pid}, dict(creds))))
    ref = None
    for k, ra, rb in sched.overlap_results(mk('p1'), mk('p2')):
        ctx.count('overlapping_evaluations')
        if k == 0:
            ref = (ra, rb)
            continue
        if (ra, rb) != ref:
            ctx.violation('decision-depends-on-a-concurrent-evaluation', dict(overlap=True, rule=rule),
                          {'rule': rule, 'credentials': creds, 'targets': ['p1', 'p2'], 'alone': list(ref), 'overlapping': [ra, rb],
                           'a_preempted_at_boundary': k})
            return
    ctx.case(['overlap', rule], nontrivial=True, stratum='overlap')


def run(ctx):
    ctx.reserve(0.8)          # the strata that come last (overlapping operations) keep a fifth of the wall budget
    from oslo_policy import policy
    enf = policy.Enforcer(env.fresh_conf(), use_conf=False)
    n = N[ctx.tier] // ctx.nshards + 1
    for i in range(n):
        if (i & 0x1ff) == 0 and ctx.expired():
            break
        case = gen_case(ctx.rnd)
        check_case(ctx, (policy, enf), case)
        if i % 8000 == 0:
            ctx.sample({'rule': rule_text(case), 'target': case['target'], 'creds': case['creds']})
        if i % 40 == 0:
            check_context_sequence(ctx, (policy, enf), ctx.rnd)
        if i % 5 == 2:
            check_containers(ctx, (policy, enf), ctx.rnd)
    ctx.stratum('random', exhaustive=False)
    ctx.release()
    from pv.mon import sched
    try:
        for i in range(12 if ctx.tier == 'quick' else 200):
            if ctx.expired():
                break
            check_overlap(ctx, (policy, enf), ctx.rnd)
    finally:
        sched.uninstall()


def replay(ctx, case):
    from oslo_policy import policy
    enf = policy.Enforcer(env.fresh_conf(), use_conf=False)
    if case.get('context_sequence'):
        return check_context_sequence(ctx, (policy, enf), None, fixed=case)
    if case.get('present'):
        return check_containers(ctx, (policy, enf), None, fixed=case)
    if case.get('overlap'):
        from pv.mon import sched
        try:
            return check_overlap(ctx, (policy, enf), None, fixed=case)
        finally:
            sched.uninstall()
    check_case(ctx, (policy, enf), case)
