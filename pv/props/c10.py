"""C10 - a long-lived enforcer always decides as a freshly started one would.

History monitor with a differential oracle: after EVERY step of a generated
history of file-system operations and enforcement calls, the long-lived real
Enforcer is compared (decisions for all names x single-role credentials, and
the printed rule store) with a brand-new Enforcer reading the current files.
Faults enumerated: file disappearance, emptiness, re-creation, touch.

Stratum G: the registered defaults refer BY NAME (`rule:<name>`, bare, negated,
inside and/or) to helper rules that only the files define - and that the
history rewrites, removes and re-creates - and to other registered defaults
that the files override.  The check objects of registered defaults live as long
as the enforcer, so anything they remember about a referenced rule must not
outlive the file that defined it.

Stratum F: the default-rule fallback.  The rule named by `policy_default_rule` (`default` or another name) is supplied
by a layer other than the one the history is removing - a policy.d file, a registered default, the main file - and the
decisions compared include names defined NOWHERE and rules whose `rule:` references point at undefined names, over
histories that delete / empty / re-create the main file and the directory file."""
import itertools
import os
import re

from pv.core import env
from pv.gen import files
from pv.mon import contracts

ID = 'C10'
LEVEL = 'fault_enumeration'
TECHNIQUE = ('history monitor with differential oracle (long-lived vs fresh real Enforcer after every step) over '
             'exhaustively enumerated short histories and random long ones of file-system faults under a logical clock')
RULE = ('histories over {write content A/B, empty, touch, delete (a later write re-creates), load, enforce} applied to '
        'the main file and to d1/a.yaml, d1/b.yaml, d2/a.yaml, with no / plain / deprecated registered defaults, '
        'enforce_new_defaults on/off, starting with or without a main file. H = every history up to the length bound '
        '(22 operations per step); R = random histories of 15-40 steps with random contents (JSON or YAML, aliases of '
        'the deprecated name included). Every step advances a logical mtime on the file and its directory. Non-trivial = '
        'the history contains a deletion or an emptying after a load; distinct = distinct (initial state, history). '
        'G = the same differential with registered defaults that refer by name (rule:<x> bare, under not, inside and/or, '
        'also through a deprecated default) to helper rules h1..h3 defined only by the files (main file and policy.d '
        'files) and to other registered defaults that the files override, over histories that redefine / remove / '
        're-create the referenced rules (every history up to length 2 over an 8-operation alphabet x 2 default sets x '
        'with/without main file, plus random histories of 8-25 steps with random reference-carrying default sets and '
        'contents, some steps without an enforcement in between); decisions for all names x single- and two-role '
        'credentials; non-trivial there = a file changes after the first load. '
        'F = the same differential on the default-rule fallback: policy_default_rule is `default` or another name, the rule of that '
        'name comes from the main file, a policy.d file, a registered default or nowhere, and the compared names include names '
        'defined nowhere and (plain / deprecated) defaults and file rules with rule: references to undefined names, over every '
        'history up to length 2 of {write with/without the default rule, empty, delete} on the main file and d1/a.yaml x 6 initial '
        'configurations, plus random histories of 8-25 steps (re-creation after deletion included).')
ASSUMPTIONS = ['each change advances modification times: enforced by the harness with a logical clock (file and directory)',
               'directories themselves are never removed; rule contents never create reference cycles',
               'the fresh enforcer is built with the same options and freshly constructed equal defaults']
LEVEL_TEXT = ('All histories up to length 2 (thorough: 3) over a 22-operation alphabet x 12 initial configurations, plus '
              'seeded random long histories; the comparison runs after every step, so each history checks all its prefixes. '
              'Fault enumeration: the faults are file deletion, emptying, re-creation and touch at every position.')
LEVEL_NOTE = 'trusted: a newly constructed Enforcer as the oracle of "what the current files mean"; os.utime for the clock'
PLAN = {'quick': dict(shards=8, wall=150), 'thorough': dict(shards=16, wall=500)}
MIN = {'steps_where_the_fresh_enforcer_decides_first': 300, 'evaluations': 1000, 'steps_compared': 3000, 'deletions': 300, 'reloads_observed': 500,
       'ref_default_steps': 300, 'ref_target_changes': 100,
       'fallback_steps': 250, 'fallback_steps_main_file_gone': 60, 'fallback_steps_undefined_name_allowed': 80}
ANCHORS = ['oslo_policy._cache_handler:read_cached_file', 'oslo_policy.policy:Enforcer._is_directory_updated',
           'oslo_policy.policy:Enforcer.load_rules', 'oslo_policy.policy:Enforcer._load_policy_file',
           'oslo_policy.policy:Enforcer.enforce']
REQUIRED_ANCHORS = ['oslo_policy.policy:Enforcer.enforce', 'oslo_policy.policy:Enforcer.load_rules']
BOUNDS = {'quick': dict(L=2, nR=150, gL=2, nG=64, nF=48), 'thorough': dict(L=3, nR=20000, gL=3, nG=800, nF=600)}

NAMES = ['n1', 'n2', 'n3', 'old1', 'new1']
ROLES = ['a', 'b', 'c', 'd', 'o', 'n']
FILES = ['policy.yaml', 'd1/a.yaml', 'd1/b.yaml', 'd2/a.yaml']
CONTENT = {'A': {'n1': 'role:a', 'old1': 'role:b'}, 'B': {'n2': 'role:c', 'new1': 'role:a', 'n1': 'role:b'}}
ALPHABET = ([['write', f, c] for f in FILES for c in 'AB'] + [['empty', f] for f in FILES] +
            [['touch', f] for f in FILES] + [['delete', f] for f in FILES] + [['load'], ['enforce']])

# -- stratum G: registered defaults that refer to other rules by name ---------------------------------------------
# Reference order (never a cycle): g<j> -> g<i> (i < j) | n1 | new1 | h*;  n1, new1, old1 -> h* (old1 also the alias
# rule:new1);  h<i> -> h<j> (j > i);  everything else is a role leaf or a constant.
HELPERS = ['h1', 'h2', 'h3']
G_CREDS = [['a'], ['b'], ['c'], ['d'], ['o'], ['d', 'a'], ['d', 'b'], ['c', 'a']]
G_CONTENT = {'X': {'h1': 'role:a', 'h2': 'role:b', 'n1': 'role:c'},
             'Y': {'h1': 'role:b', 'h3': 'role:a', 'h2': 'rule:h3'}}
G_DEFS = [[['n1', 'role:d'], ['g1', 'rule:h1'], ['g2', 'not rule:h2'], ['g3', 'role:d and rule:h1'],
           ['g4', 'role:c or rule:h2'], ['g5', 'rule:n1'], ['g6', 'not rule:n1 or rule:h3']],
          [['n1', 'role:d'], ['g1', 'rule:h2'], ['g2', 'role:a and not rule:n1'], ['new1', 'rule:h1', ['old1', 'role:o']],
           ['g3', 'rule:new1 or rule:h3'], ['g4', '(rule:g1 and role:d) or role:o']]]
G_FILES = ['policy.yaml', 'd1/a.yaml']
G_ALPHABET = ([['write', f, {'text': files.render(G_CONTENT[c], 'json')}] for f in G_FILES for c in 'XY'] +
              [['empty', f] for f in G_FILES] + [['delete', f] for f in G_FILES])
REF_FORMS = ['rule:%s', 'not rule:%s', 'role:d and rule:%s', 'role:c or rule:%s', 'not rule:%s or role:d',
             '(rule:%s and role:d) or role:o', 'rule:%s and rule:%s', 'rule:%s or not rule:%s', 'not (rule:%s or role:a)']
_REF = re.compile(r'rule:([A-Za-z0-9_]+)')

# -- stratum F: the default-rule fallback ---------------------------------------------------------------------------
# u1 is defined nowhere and referenced by nothing; u2, u3 are defined nowhere and referenced by defaults / file rules.
# The default rule itself is always reference-free (a reference from it to an undefined name would be a cycle).
UNDEF = ['u1', 'u2', 'u3']
F_OPTS = ['default', 'fb1']
F_FILES = ['policy.yaml', 'd1/a.yaml']
F_CREDS = [['a'], ['b'], ['c'], ['d'], ['o'], ['d', 'a']]
F_PLAIN = [['n1', 'role:d'], ['g1', 'rule:u2'], ['g2', 'not rule:u2'], ['g3', 'role:c or rule:u2'],
           ['g4', 'rule:h1 and role:d'], ['new1', 'rule:u2 or role:n', ['old1', 'role:o']]]
F_DEFAULT_LEAVES = ['role:a', 'role:b', 'role:d', '@', 'not role:c', 'role:a or role:o']


def f_registered(opt):
    return [[opt, 'role:d'], ['n1', 'role:c'], ['g1', 'rule:u2 and rule:h1'], ['g2', 'not rule:u3 or role:o'],
            ['g3', 'rule:g1 or role:a']]


def f_content(opt):
    return {'P': files.render({'n1': 'role:c', 'h1': 'role:b'}, 'json'),
            'D': files.render({opt: 'role:a', 'h1': 'rule:u3'}, 'json')}


def f_configs():
    """(option value, main file, d1/a.yaml, registered defaults): where the default rule comes from"""
    out = []
    for opt in F_OPTS:
        c = f_content(opt)
        out += [(opt, c['P'], c['D'], F_PLAIN),             # from the directory file
                (opt, c['P'], None, f_registered(opt))]     # from a registered default
        if opt == F_OPTS[0]:
            out += [(opt, c['D'], c['P'], F_PLAIN),             # from the main file
                    (opt, None, c['D'], f_registered(opt))]     # no main file at first: directory file over registered default
    return out


def rnd_fb_defs(rnd, opt):
    defs = [['n1', 'role:d']]
    if rnd.random() < 0.5:
        defs.append([opt, rnd.choice(F_DEFAULT_LEAVES)])
    targets = HELPERS + ['u2', 'u2', 'u3', 'n1']
    if rnd.random() < 0.4:
        defs.append(['new1', rnd.choice(['rule:u2 or role:n', 'rule:' + rnd.choice(HELPERS), 'role:n']), ['old1', 'role:o']])
        targets = targets + ['new1']
    for i in range(1, rnd.randint(3, 6)):
        form = rnd.choice(REF_FORMS)
        defs.append(['g%d' % i, form % tuple(rnd.choice(targets) for _ in range(form.count('%s')))])
        targets = targets + ['g%d' % i]
    return defs


def rnd_fb_content(rnd, opt, p_default):
    d = {}
    if rnd.random() < p_default:
        d[opt] = rnd.choice(F_DEFAULT_LEAVES)
    for n in rnd.sample(HELPERS * 2 + ['n1', 'n1', 'old1', 'new1', 'g1', 'g2'], rnd.randint(0, 3)):
        if n in d:
            continue
        x = rnd.random()
        higher = HELPERS[HELPERS.index(n) + 1:] if n in HELPERS else []
        if x < 0.3:
            d[n] = rnd.choice(['rule:%s', 'rule:%s or role:c', 'not rule:%s']) % rnd.choice(['u2', 'u3'])
        elif higher and x < 0.45:
            d[n] = 'rule:' + rnd.choice(higher)
        elif n == 'old1' and x < 0.5:
            d[n] = 'rule:new1'
        else:
            d[n] = 'role:' + rnd.choice(ROLES[:4])
    fmt = rnd.choice(['json', 'yaml-lines', 'yaml'])
    return files.render(d, fmt) if d or fmt == 'json' else ''


def make_ref_defaults(policy, defs):
    out = []
    for d in defs:
        if len(d) > 2 and d[2]:
            dep = policy.DeprecatedRule(d[2][0], d[2][1], deprecated_reason='r', deprecated_since='s')
            out.append(policy.RuleDefault(d[0], d[1], deprecated_rule=dep))
        else:
            out.append(policy.RuleDefault(d[0], d[1]))
    return out


def referenced(defs):
    return sorted({m for d in defs for m in _REF.findall(d[1])})


def case_space(case):
    """names x credentials on which the two enforcers are compared"""
    defs = case.get('defs')
    if defs is None:
        return NAMES, [[r] for r in ROLES]
    names = []
    for n in [d[0] for d in defs] + HELPERS + ['n1', 'old1', 'new1']:
        if n not in names:
            names.append(n)
    fb = case.get('fb')
    if fb:
        for n in [fb['opt'], 'default'] + UNDEF:
            if n not in names:
                names.append(n)
        return names, F_CREDS
    return names, G_CREDS


def rnd_ref_defs(rnd):
    defs = [['n1', 'role:d']]
    targets = HELPERS + HELPERS + ['n1']
    if rnd.random() < 0.4:
        defs.append(['new1', rnd.choice(['rule:' + rnd.choice(HELPERS), 'role:n']), ['old1', 'role:o']])
        targets = targets + ['new1']
    for i in range(1, rnd.randint(3, 6)):
        form = rnd.choice(REF_FORMS)
        defs.append(['g%d' % i, form % tuple(rnd.choice(targets) for _ in range(form.count('%s')))])
        targets = targets + ['g%d' % i]
    return defs


def rnd_ref_content(rnd, defs):
    pool = HELPERS * 3 + ['n1', 'n1', 'old1', 'new1'] + [d[0] for d in defs if d[0].startswith('g')]
    d = {}
    for n in rnd.sample(pool, rnd.randint(0, 4)):
        if n in d:
            continue
        x = rnd.random()
        if n in HELPERS:
            higher = HELPERS[HELPERS.index(n) + 1:]
            if higher and x < 0.2:
                d[n] = 'rule:' + rnd.choice(higher)
            elif x < 0.3:
                d[n] = 'not role:' + rnd.choice(ROLES[:3])
            elif x < 0.4:
                d[n] = rnd.choice(['@', '!'])
            else:
                d[n] = 'role:' + rnd.choice(ROLES[:4])
        elif n == 'old1' and x < 0.2:
            d[n] = 'rule:new1'
        elif x < 0.3:
            d[n] = 'rule:' + rnd.choice(HELPERS)
        else:
            d[n] = 'role:' + rnd.choice(ROLES[:3])
    fmt = rnd.choice(['json', 'yaml-lines', 'yaml'])
    return files.render(d, fmt) if d or fmt == 'json' else ''


def make_defaults(policy, kind):
    if kind == 0:
        return []
    ds = [policy.RuleDefault('n1', 'role:d'), policy.RuleDefault('n3', 'role:d or role:a')]
    if kind == 2:
        dep = policy.DeprecatedRule('old1', 'role:o', deprecated_reason='r', deprecated_since='s')
        ds.append(policy.RuleDefault('new1', 'role:n', deprecated_rule=dep))
    return ds


def decisions(enf, names=NAMES, creds=None):
    out = {}
    for n in names:
        for rs in (creds if creds is not None else [[r] for r in ROLES]):
            k = n + '/' + '+'.join(rs)
            try:
                out[k] = bool(enf.enforce(n, {}, {'roles': list(rs)}))
            except Exception as e:
                out[k] = 'EXC:%s:%s' % (type(e).__name__, str(e)[:60])
    return out


def printed(enf):
    try:
        return {k: str(v) for k, v in enf.rules.items()}
    except Exception as e:
        return {'EXC': type(e).__name__}


def run_history(ctx, case):
    from oslo_policy import policy
    tree = files.Tree(dirs=('d1', 'd2'))
    try:
        flag = case['flag']

        defs = case.get('defs')                    # stratum G: the registered defaults travel with the case
        names, creds = case_space(case)
        refs = referenced(defs) if defs is not None else []
        skip = set(case.get('skip') or ())

        fb = case.get('fb')                        # stratum F: which rule name is the fallback
        conf_kw = dict(enforce_new_defaults=flag)
        if fb:
            conf_kw['policy_default_rule'] = fb['opt']

        def mk():
            e = policy.Enforcer(tree.conf(**conf_kw))
            e.register_defaults(make_ref_defaults(policy, defs) if defs is not None else make_defaults(policy, case['kind']))
            return e
        if case['initial'] is not None:
            tree.write_text('policy.yaml', case['initial'])
        for rel, text in sorted((case.get('files0') or {}).items()):
            tree.write_text(rel, text)
        enf = mk()
        if case.get('warm', True):
            decisions(enf, names, creds)         # the service has been running: first load done
        main_seen = tree.exists('policy.yaml')
        hist = case['history']
        nontrivial = False
        loaded = case.get('warm', True)
        changed_after_load = False
        seen_targets = None                        # what the referenced names meant at the previous enforcement
        if defs is not None and loaded:
            p0 = printed(enf)
            seen_targets = {n: p0.get(n) for n in refs}
        for i, op in enumerate(hist):
            kind = op[0]
            if kind == 'write':
                text = op[2]['text'] if isinstance(op[2], dict) else files.render(CONTENT[op[2]], 'json')
                tree.write_text(op[1], text)
            elif kind == 'empty':
                tree.write_text(op[1], '')
                nontrivial = nontrivial or loaded
            elif kind == 'touch':
                tree.touch(op[1])
            elif kind == 'delete':
                if tree.exists(op[1]):
                    ctx.count('deletions')
                    nontrivial = nontrivial or loaded
                tree.delete(op[1])
            elif kind == 'load':
                try:
                    enf.load_rules()
                except Exception as e:
                    ctx.violation(classify_exc(tree, main_seen, e), case,
                                  {'step': i, 'op': op, 'observed': '%s: %s' % (type(e).__name__, str(e)[:100])})
                    return
                loaded = True
            main_seen = main_seen or tree.exists('policy.yaml')
            if kind in ('write', 'empty', 'delete') and loaded:
                changed_after_load = True
            if i in skip:                          # several edits between two enforcements
                continue
            was_loaded = loaded
            if i % 2:
                # the freshly started enforcer looks at the files FIRST (another worker of the same service, started after the
                # change): what it reads must not take anything away from the long-lived one
                fresh = mk()
                want = decisions(fresh, names, creds)
                ctx.count('steps_where_the_fresh_enforcer_decides_first')
                got = decisions(enf, names, creds)
            else:
                got = decisions(enf, names, creds)
                fresh = mk()
                want = decisions(fresh, names, creds)
            loaded = True
            ctx.count('steps_compared')
            if defs is not None and not fb:
                ctx.count('ref_default_steps')
            if fb:
                ctx.count('fallback_steps')
                if main_seen and not tree.exists('policy.yaml'):
                    ctx.count('fallback_steps_main_file_gone')
                if any(want.get('u1/' + '+'.join(c)) is True for c in creds):
                    ctx.count('fallback_steps_undefined_name_allowed')   # the fallback really decides something
            if got != want:
                diff = {k: [got[k], want[k]] for k in got if got[k] != want[k]}
                excs = [v[0] for v in diff.values() if isinstance(v[0], str)]
                if excs:
                    key = 'main-file-deleted' if (not tree.exists('policy.yaml') and main_seen and 'TypeError' in excs[0]) \
                        else 'enforce-raises-' + excs[0].split(':')[1]
                elif fb and any(k.split('/')[0] in UNDEF for k in diff):
                    key = 'default-rule-fallback-diverges-from-fresh-enforcer'
                else:
                    key = 'diverges-from-fresh-enforcer'
                ctx.violation(key, case, {'step': i, 'history_prefix': hist[:i + 1], 'long_lived_vs_fresh': dict(list(diff.items())[:6]),
                                          'files_now': {f: tree.exists(f) for f in FILES}})
                return
            pg, pw = printed(enf), printed(fresh)
            if pg != pw:
                ctx.violation('rule-store-differs-from-fresh', case,
                              {'step': i, 'history_prefix': hist[:i + 1],
                               'long_lived': {k: v for k, v in pg.items() if pw.get(k) != v},
                               'fresh': {k: v for k, v in pw.items() if pg.get(k) != v}})
                return
            if defs is not None and not fb:
                now = {n: pw.get(n) for n in refs}
                if was_loaded and seen_targets is not None and now != seen_targets:
                    ctx.count('ref_target_changes')   # a referenced rule changed meaning between two enforcements
                seen_targets = now
        if fb:
            ctx.case([case['initial'], case.get('files0'), fb, defs, case['flag'], hist, sorted(skip)], nontrivial=changed_after_load,
                     stratum=case['s'])
        elif defs is not None:
            ctx.case([case['initial'], defs, case['flag'], hist, sorted(skip)], nontrivial=changed_after_load, stratum=case['s'])
        else:
            ctx.case([case['initial'], case['kind'], case['flag'], hist], nontrivial=nontrivial, stratum=case['s'])
        ctx.count('reloads_observed', sum(1 for op in hist if op[0] in ('write', 'empty', 'touch', 'delete')))
    finally:
        tree.cleanup()
    for name, info in contracts.drain():
        ctx.violation('contract-' + name, case, {'contract': name, 'observed': info})


def classify_exc(tree, main_seen, e):
    if isinstance(e, TypeError) and not tree.exists('policy.yaml') and main_seen:
        return 'main-file-deleted'
    return 'load-raises-' + type(e).__name__


def rnd_content(rnd):
    k = rnd.sample(NAMES, rnd.randint(0, 3))
    d = {}
    for n in k:
        if n == 'old1' and rnd.random() < 0.2:
            d[n] = 'rule:new1'
        else:
            d[n] = 'role:' + rnd.choice(ROLES[:3])
    fmt = rnd.choice(['json', 'yaml-lines', 'yaml'])
    return files.render(d, fmt) if d or fmt == 'json' else ''


def run(ctx):
    contracts.load_rules_keeps_defaults()
    b = BOUNDS[ctx.tier]
    run_fallback(ctx, b)
    idx = 0
    done = True
    inits = [None, files.render(CONTENT['A'], 'json')]
    for L in range(1, b['L'] + 1):
        for hist in itertools.product(range(len(ALPHABET)), repeat=L):
            for kind in (0, 1, 2):
                for init in (0, 1):
                    idx += 1
                    if not ctx.mine(idx):
                        continue
                    if ((idx // ctx.nshards) & 0x7) == 0 and ctx.expired():       # counted per shard: idx itself is filtered by mine()
                        done = False
                        break
                    case = dict(s='H', initial=inits[init], kind=kind, flag=bool((idx // 7) % 2),
                                history=[ALPHABET[i] for i in hist])
                    run_history(ctx, case)
                    if idx % 1500 == 0:
                        ctx.sample(case, 'H')
                if not done:
                    break
            if not done:
                break
    ctx.stratum('H', exhaustive=done)
    run_refs(ctx, b)
    rnd = ctx.rnd
    for i in range(b['nR'] // ctx.nshards + 1):
        if ctx.expired():
            break
        hist = []
        for _ in range(rnd.randint(15, 40)):
            op = rnd.choice(['write', 'write', 'empty', 'touch', 'delete', 'load', 'enforce'])
            f = rnd.choice(FILES)
            if op == 'write':
                hist.append(['write', f, {'text': rnd_content(rnd)}])
            elif op in ('load', 'enforce'):
                hist.append([op])
            else:
                hist.append([op, f])
        case = dict(s='R', initial=rnd_content(rnd) if rnd.random() < 0.5 else None, kind=rnd.randint(0, 2),
                    flag=rnd.random() < 0.5, history=hist, warm=rnd.random() < 0.8)
        run_history(ctx, case)
        if i % 10 == 0:
            ctx.sample(dict(case, history=case['history'][:8] + ['...']), 'R')
    ctx.stratum('R', exhaustive=False)
    for k, v in contracts.EVALS.items():
        ctx.count('contract_evals.' + k, v)


def run_refs(ctx, b):
    """Stratum G (own random streams: the histories of stratum R stay what they were)."""
    inits = [None, files.render(G_CONTENT['X'], 'json')]
    idx = 0
    done = True
    for L in range(1, b['gL'] + 1):
        for hist in itertools.product(range(len(G_ALPHABET)), repeat=L):
            for di in range(len(G_DEFS)):
                for init in (0, 1):
                    idx += 1
                    if not ctx.mine(idx):
                        continue
                    if L > 2 and ctx.expired():
                        done = False
                        continue
                    case = dict(s='G', initial=inits[init], kind=0, flag=bool((idx // 3) % 2), defs=G_DEFS[di],
                                history=[G_ALPHABET[i] for i in hist])
                    run_history(ctx, case)
                    if idx % 40 == 0:
                        ctx.sample(case, 'G')
    ctx.stratum('G', exhaustive=done)
    for i in range(b['nG'] // ctx.nshards + 1):
        if i >= 8 and ctx.expired():
            break
        rnd = ctx.sub_rnd('G', ctx.tier, ctx.shard, i)
        defs = rnd_ref_defs(rnd)
        hist = []
        for _ in range(rnd.randint(8, 25)):
            op = rnd.choice(['write', 'write', 'write', 'empty', 'touch', 'delete', 'delete', 'load', 'enforce'])
            f = rnd.choice(FILES[:2] + FILES)
            if op == 'write':
                hist.append(['write', f, {'text': rnd_ref_content(rnd, defs)}])
            elif op in ('load', 'enforce'):
                hist.append([op])
            else:
                hist.append([op, f])
        skip = [j for j in range(len(hist)) if rnd.random() < 0.2]
        case = dict(s='GR', initial=rnd_ref_content(rnd, defs) if rnd.random() < 0.7 else None, kind=0,
                    flag=rnd.random() < 0.5, defs=defs, history=hist, skip=skip, warm=rnd.random() < 0.8)
        run_history(ctx, case)
        if i % 4 == 0:
            ctx.sample(dict(case, history=case['history'][:8] + ['...']), 'GR')
    ctx.stratum('GR', exhaustive=False)


def run_fallback(ctx, b):
    """Stratum F (own random streams; runs first: it is small and must not be the one a cut budget loses)."""
    idx = 0
    done = True
    for L in range(1, b['gL'] + 1):
        for ci, (opt, main, dfile, defs) in enumerate(f_configs()):
            c = f_content(opt)
            alphabet = ([['write', f, {'text': c[k]}] for f in F_FILES for k in 'PD'] + [['empty', f] for f in F_FILES] +
                        [['delete', f] for f in F_FILES])
            for hist in itertools.product(range(len(alphabet)), repeat=L):
                idx += 1
                if not ctx.mine(idx):
                    continue
                if L > 2 and ctx.expired():
                    done = False
                    continue
                case = dict(s='F', initial=main, files0={'d1/a.yaml': dfile} if dfile is not None else {}, kind=0,
                            flag=bool((idx // 3) % 2), fb={'opt': opt}, defs=defs, history=[alphabet[i] for i in hist])
                run_history(ctx, case)
                if idx % 60 == 0:
                    ctx.sample(case, 'F')
    ctx.stratum('F', exhaustive=done)
    for i in range(b['nF'] // ctx.nshards + 1):
        if i >= 6 and ctx.expired():
            break
        rnd = ctx.sub_rnd('F', ctx.tier, ctx.shard, i)
        opt = rnd.choice(F_OPTS)
        defs = rnd_fb_defs(rnd, opt)
        hist = []
        for _ in range(rnd.randint(8, 25)):
            op = rnd.choice(['write', 'write', 'write', 'empty', 'touch', 'delete', 'delete', 'load', 'enforce'])
            f = rnd.choice(FILES[:1] * 3 + FILES)
            if op == 'write':
                hist.append(['write', f, {'text': rnd_fb_content(rnd, opt, 0.15 if f == FILES[0] else 0.5)}])
            elif op in ('load', 'enforce'):
                hist.append([op])
            else:
                hist.append([op, f])
        skip = [j for j in range(len(hist)) if rnd.random() < 0.15]
        files0 = {f: rnd_fb_content(rnd, opt, 0.6) for f in FILES[1:] if rnd.random() < 0.5}
        case = dict(s='FR', initial=rnd_fb_content(rnd, opt, 0.2) if rnd.random() < 0.8 else None, files0=files0, kind=0,
                    flag=rnd.random() < 0.5, fb={'opt': opt}, defs=defs, history=hist, skip=skip, warm=rnd.random() < 0.8)
        run_history(ctx, case)
        if i % 3 == 0:
            ctx.sample(dict(case, history=case['history'][:8] + ['...']), 'FR')
    ctx.stratum('FR', exhaustive=False)


def replay(ctx, case):
    contracts.load_rules_keeps_defaults()
    run_history(ctx, case)
