"""C10 - a long-lived enforcer always decides as a freshly started one would.

History monitor with a differential oracle: after EVERY step of a generated
history of file-system operations and enforcement calls, the long-lived real
Enforcer is compared (decisions for all names x single-role credentials, and
the printed rule store) with a brand-new Enforcer reading the current files.
Faults enumerated: file disappearance, emptiness, re-creation, touch."""
import itertools
import os

from pv.core import env
from pv.gen import files
from pv.mon import contracts

ID = 'C10'
LEVEL = 'fault_enumeration'
TECHNIQUE = ('history monitor with differential oracle (long-lived vs fresh real Enforcer after every step) over '
             'exhaustively enumerated short histories and random long ones of file-system faults under a logical clock')
RULE = ('histories over {write content A/B, empty, touch, delete (a later write re-creates), load, enforce} applied to '
        'the main file and to d1/a.yaml, d1/b.yaml, d2/a.yaml, with no / plain / deprecated registered defaults, '
        'enforce_new_defaults on/off, starting with or without a main file. H = every history up to the length bound '
        '(22 operations per step); R = random histories of 15-40 steps with random contents (JSON or YAML, aliases of '
        'the deprecated name included). Every step advances a logical mtime on the file and its directory. Non-trivial = '
        'the history contains a deletion or an emptying after a load; distinct = distinct (initial state, history).')
ASSUMPTIONS = ['each change advances modification times: enforced by the harness with a logical clock (file and directory)',
               'directories themselves are never removed; rule contents never create reference cycles',
               'the fresh enforcer is built with the same options and freshly constructed equal defaults']
LEVEL_TEXT = ('All histories up to length 2 (thorough: 3) over a 22-operation alphabet x 12 initial configurations, plus '
              'seeded random long histories; the comparison runs after every step, so each history checks all its prefixes. '
              'Fault enumeration: the faults are file deletion, emptying, re-creation and touch at every position.')
LEVEL_NOTE = 'trusted: a newly constructed Enforcer as the oracle of "what the current files mean"; os.utime for the clock'
PLAN = {'quick': dict(shards=8, wall=80), 'thorough': dict(shards=16, wall=500)}
MIN = {'evaluations': 1000, 'steps_compared': 3000, 'deletions': 300, 'reloads_observed': 500}
ANCHORS = ['oslo_policy._cache_handler:read_cached_file', 'oslo_policy.policy:Enforcer._is_directory_updated',
           'oslo_policy.policy:Enforcer.load_rules', 'oslo_policy.policy:Enforcer._load_policy_file',
           'oslo_policy.policy:Enforcer.enforce']
REQUIRED_ANCHORS = ['oslo_policy.policy:Enforcer.enforce', 'oslo_policy.policy:Enforcer.load_rules']
BOUNDS = {'quick': dict(L=2, nR=150), 'thorough': dict(L=3, nR=20000)}

NAMES = ['n1', 'n2', 'n3', 'old1', 'new1']
ROLES = ['a', 'b', 'c', 'd', 'o', 'n']
FILES = ['policy.yaml', 'd1/a.yaml', 'd1/b.yaml', 'd2/a.yaml']
CONTENT = {'A': {'n1': 'role:a', 'old1': 'role:b'}, 'B': {'n2': 'role:c', 'new1': 'role:a', 'n1': 'role:b'}}
ALPHABET = ([['write', f, c] for f in FILES for c in 'AB'] + [['empty', f] for f in FILES] +
            [['touch', f] for f in FILES] + [['delete', f] for f in FILES] + [['load'], ['enforce']])


def make_defaults(policy, kind):
    if kind == 0:
        return []
    ds = [policy.RuleDefault('n1', 'role:d'), policy.RuleDefault('n3', 'role:d or role:a')]
    if kind == 2:
        dep = policy.DeprecatedRule('old1', 'role:o', deprecated_reason='r', deprecated_since='s')
        ds.append(policy.RuleDefault('new1', 'role:n', deprecated_rule=dep))
    return ds


def decisions(enf):
    out = {}
    for n in NAMES:
        for r in ROLES:
            try:
                out[n + '/' + r] = bool(enf.enforce(n, {}, {'roles': [r]}))
            except Exception as e:
                out[n + '/' + r] = 'EXC:%s:%s' % (type(e).__name__, str(e)[:60])
    return out


def printed(enf):
    try:
        return {k: str(v) for k, v in enf.rules.items()}
    except Exception as e:
        return {'EXC': type(e).__name__}


def run_history(ctx, case):
    from oslo_policy import policy
    tree = files.Tree(dirs=('d1', 'd2'))
    try:
        flag = case['flag']

        def mk():
            e = policy.Enforcer(tree.conf(enforce_new_defaults=flag))
            e.register_defaults(make_defaults(policy, case['kind']))
            return e
        if case['initial'] is not None:
            tree.write_text('policy.yaml', case['initial'])
        enf = mk()
        if case.get('warm', True):
            decisions(enf)                       # the service has been running: first load done
        main_seen = tree.exists('policy.yaml')
        hist = case['history']
        nontrivial = False
        loaded = case.get('warm', True)
        for i, op in enumerate(hist):
            kind = op[0]
            if kind == 'write':
                text = op[2]['text'] if isinstance(op[2], dict) else files.render(CONTENT[op[2]], 'json')
                tree.write_text(op[1], text)
            elif kind == 'empty':
                tree.write_text(op[1], '')
                nontrivial = nontrivial or loaded
            elif kind == 'touch':
                tree.touch(op[1])
            elif kind == 'delete':
                if tree.exists(op[1]):
                    ctx.count('deletions')
                    nontrivial = nontrivial or loaded
                tree.delete(op[1])
            elif kind == 'load':
                try:
                    enf.load_rules()
                except Exception as e:
                    ctx.violation(classify_exc(tree, main_seen, e), case,
                                  {'step': i, 'op': op, 'observed': '%s: %s' % (type(e).__name__, str(e)[:100])})
                    return
                loaded = True
            main_seen = main_seen or tree.exists('policy.yaml')
            got = decisions(enf)
            loaded = True
            fresh = mk()
            want = decisions(fresh)
            ctx.count('steps_compared')
            if got != want:
                diff = {k: [got[k], want[k]] for k in got if got[k] != want[k]}
                excs = [v[0] for v in diff.values() if isinstance(v[0], str)]
                if excs:
                    key = 'main-file-deleted' if (not tree.exists('policy.yaml') and main_seen and 'TypeError' in excs[0]) \
                        else 'enforce-raises-' + excs[0].split(':')[1]
                else:
                    key = 'diverges-from-fresh-enforcer'
                ctx.violation(key, case, {'step': i, 'history_prefix': hist[:i + 1], 'long_lived_vs_fresh': dict(list(diff.items())[:6]),
                                          'files_now': {f: tree.exists(f) for f in FILES}})
                return
            pg, pw = printed(enf), printed(fresh)
            if pg != pw:
                ctx.violation('rule-store-differs-from-fresh', case,
                              {'step': i, 'history_prefix': hist[:i + 1],
                               'long_lived': {k: v for k, v in pg.items() if pw.get(k) != v},
                               'fresh': {k: v for k, v in pw.items() if pg.get(k) != v}})
                return
        ctx.case([case['initial'], case['kind'], case['flag'], hist], nontrivial=nontrivial, stratum=case['s'])
        ctx.count('reloads_observed', sum(1 for op in hist if op[0] in ('write', 'empty', 'touch', 'delete')))
    finally:
        tree.cleanup()
    for name, info in contracts.drain():
        ctx.violation('contract-' + name, case, {'contract': name, 'observed': info})


def classify_exc(tree, main_seen, e):
    if isinstance(e, TypeError) and not tree.exists('policy.yaml') and main_seen:
        return 'main-file-deleted'
    return 'load-raises-' + type(e).__name__


def rnd_content(rnd):
    k = rnd.sample(NAMES, rnd.randint(0, 3))
    d = {}
    for n in k:
        if n == 'old1' and rnd.random() < 0.2:
            d[n] = 'rule:new1'
        else:
            d[n] = 'role:' + rnd.choice(ROLES[:3])
    fmt = rnd.choice(['json', 'yaml-lines', 'yaml'])
    return files.render(d, fmt) if d or fmt == 'json' else ''


def run(ctx):
    contracts.load_rules_keeps_defaults()
    b = BOUNDS[ctx.tier]
    idx = 0
    done = True
    inits = [None, files.render(CONTENT['A'], 'json')]
    for L in range(1, b['L'] + 1):
        for hist in itertools.product(range(len(ALPHABET)), repeat=L):
            for kind in (0, 1, 2):
                for init in (0, 1):
                    idx += 1
                    if not ctx.mine(idx):
                        continue
                    if (idx & 0x3f) == 0 and ctx.expired():
                        done = False
                        break
                    case = dict(s='H', initial=inits[init], kind=kind, flag=bool((idx // 7) % 2),
                                history=[ALPHABET[i] for i in hist])
                    run_history(ctx, case)
                    if idx % 1500 == 0:
                        ctx.sample(case, 'H')
                if not done:
                    break
            if not done:
                break
    ctx.stratum('H', exhaustive=done)
    rnd = ctx.rnd
    for i in range(b['nR'] // ctx.nshards + 1):
        if ctx.expired():
            break
        hist = []
        for _ in range(rnd.randint(15, 40)):
            op = rnd.choice(['write', 'write', 'empty', 'touch', 'delete', 'load', 'enforce'])
            f = rnd.choice(FILES)
            if op == 'write':
                hist.append(['write', f, {'text': rnd_content(rnd)}])
            elif op in ('load', 'enforce'):
                hist.append([op])
            else:
                hist.append([op, f])
        case = dict(s='R', initial=rnd_content(rnd) if rnd.random() < 0.5 else None, kind=rnd.randint(0, 2),
                    flag=rnd.random() < 0.5, history=hist, warm=rnd.random() < 0.8)
        run_history(ctx, case)
        if i % 10 == 0:
            ctx.sample(dict(case, history=case['history'][:8] + ['...']), 'R')
    ctx.stratum('R', exhaustive=False)
    for k, v in contracts.EVALS.items():
        ctx.count('contract_evals.' + k, v)


def replay(ctx, case):
    contracts.load_rules_keeps_defaults()
    run_history(ctx, case)
