"""C02 - malformed rules and non-rule values never grant access.

Monitor: an independent recogniser classifies every generated string; what it
rejects must deny for every probe credential (and never raise), what it accepts
is handed to C01's reference evaluator (cross-checking the recogniser).  Values
that are not rules must be rejected at load or deny.  Contract on the real
parse_rule: the result is always a check object."""
import itertools
import json
import os
import re

import yaml

from pv.core import env
from pv.gen import expr, files
from pv.mon import contracts

ID = 'C02'
LEVEL = 'exploration'
TECHNIQUE = ('runtime monitor with an independent recogniser as classifier: exhaustive rejected token sequences, '
             'corruptions, random strings and every non-rule value type, each enforced against a spread of credentials; '
             'icontract post-condition on parse_rule; overlapping and first-use loads under a deterministic line-level thread scheduler (sys.monitoring)')
RULE = ('strata: S = every token sequence up to the length bound over {(,),and,or,not,role-check,colon-less word,'
        'quoted string}; T = one-token rules; E = one-edit corruptions (delete/insert/replace/unbalance) of grammatical '
        'sentences; R = random ASCII/Unicode strings built from rule fragments, exotic whitespace, quotes, full-width '
        'parentheses; V = JSON/YAML scalars and containers as rule values, alone and inside lists, through parse_rule, '
        'Rules.from_dict, Rules.load (JSON and YAML text) and a file-backed Enforcer; LS = lists of arbitrary strings and lists of strings (must load and evaluate); stratum first-use: in a fresh interpreter per schedule a malformed rule and a permissive rule are the very first rules the process loads, by two threads at once; O = a malformed rule or non-rule value loaded and enforced by one thread while another thread loads a permissive well-formed rule (pre-emption at sampled line boundaries, deterministic scheduler). Each rule is enforced under the '
        'empty, single-role, all-role and an "everything" credential. Non-trivial = the recogniser rejects the string, '
        'or the value is not a string/list-of-strings; distinct = distinct rule value and transport.')
ASSUMPTIONS = [
    'the recogniser (pv/gen/expr.py) implements the documented tokenisation; where the statement leaves a reading open '
    '(Unicode whitespace as separator, quote test before/after peeling a trailing parenthesis) every reading is accepted',
    'for a list mixing valid strings with junk the weaker reading is used: the junk entry contributes no permission',
]
LEVEL_TEXT = ('All rejected token sequences up to 6 (thorough: 7, and 8 over the core alphabet) tokens and all listed non-rule '
              'values are driven through the real loader and enforcer and must fail closed; random strings and corruptions '
              'sample the rest. "Denies for every credential" over an infinite input set is reachable only by such a sweep.')
LEVEL_NOTE = 'trusted: the independent recogniser; PyYAML/JSON as transports; probe credentials stand for "every credential"'
PLAN = {'quick': dict(shards=8, wall=120), 'thorough': dict(shards=16, wall=500)}
MIN = {'first_use_schedules': 24, 'overlapping_evaluations': 200, 'evaluations': 1000, 'rejected_strings': 500, 'accepted_strings': 100, 'nonrule_values': 30, 'string_lists': 100, 'enforce_calls': 5000}
ANCHORS = ['oslo_policy._parser:parse_rule', 'oslo_policy._parser:_parse_text_rule', 'oslo_policy._parser:_parse_check',
           'oslo_policy._parser:_parse_list_rule', 'oslo_policy.policy:Rules.load', 'oslo_policy.policy:Rules.from_dict',
           'oslo_policy.policy:Enforcer.enforce', 'oslo_policy.policy:parse_file_contents']
REQUIRED_ANCHORS = ['oslo_policy.policy:Enforcer.enforce']

BOUNDS = {'quick': dict(L8=6, L6=7, nE=3000, nR=6000), 'thorough': dict(L8=7, L6=9, nE=150000, nR=400000)}

EVERYTHING = {'roles': ['r0', 'r1', 'r2', 'r3', 'r4', 'r5', 'r6', 'r7', 'a', 'b', 'admin', 'member', 'reader'],
              'is_admin': True, 'system_scope': 'all', 'user_id': 'u', 'project_id': 'p', 'domain_id': 'd',
              'is_admin_project': True}
TARGET = {'project_id': 'p', 'user_id': 'u', 'domain_id': 'd'}
DOCUMENTED_EXC = ('PolicyNotAuthorized', 'InvalidScope', 'InvalidContextObject', 'PolicyNotRegistered')


class Real:
    def __init__(self):
        from oslo_policy import policy, _parser
        self.policy = policy
        self._parser = _parser
        self.conf = env.fresh_conf()
        self.enf = policy.Enforcer(self.conf, use_conf=False)
        self.enf2 = policy.Enforcer(env.fresh_conf(), use_conf=False)
        self.calls = 0

    def load(self, value, via):
        """Install {'p': value}; returns (enforcer, tree) or raises LoadRejected."""
        P = self.policy
        tree = None
        try:
            if via == 'dict':
                self.enf.set_rules(P.Rules.from_dict({'p': value}))
                return self.enf, None
            if via == 'parse_rule':
                chk = self._parser.parse_rule(value)
                self.enf.set_rules(P.Rules({'p': chk}))
                return self.enf, None
            if via == 'load-json':
                self.enf.set_rules(P.Rules.load(json.dumps({'p': value})))
                return self.enf, None
            if via == 'load-yaml':
                self.enf.set_rules(P.Rules.load(yaml.safe_dump({'p': value})))
                return self.enf, None
            if via in ('file-json', 'file-yaml'):
                tree = files.Tree(dirs=())
                tree.write(os.path.basename(tree.main), {'p': value}, via[5:])
                enf = P.Enforcer(tree.conf())
                if self.calls % 2:
                    # the service registered a permissive default for the same name: a malformed override in the
                    # operator's file still denies - it must never fall back to what the default would allow
                    enf.register_default(P.RuleDefault('p', '@'))
                enf.load_rules()
                return enf, tree
            if via == 'yaml-text':      # value is raw YAML for the whole file
                tree = files.Tree(dirs=())
                tree.write_text(os.path.basename(tree.main), value)
                enf = P.Enforcer(tree.conf())
                if self.calls % 2:
                    enf.register_default(P.RuleDefault('p', '@'))
                enf.load_rules()
                return enf, tree
        except Exception as e:
            if tree:
                tree.cleanup()
            raise LoadRejected(type(e).__name__ + ': ' + str(e)[:80])
        raise ValueError(via)

    def decide(self, enf, creds):
        self.calls += 1
        try:
            return bool(enf.enforce('p', dict(TARGET), json.loads(json.dumps(creds))))
        except Exception as e:
            return 'EXC:' + type(e).__name__


class LoadRejected(Exception):
    pass


def probe_creds(k):
    """empty, each single role, all roles, everything."""
    out = [{'roles': []}]
    for i in range(min(k, 4)):
        out.append({'roles': ['r%d' % i]})
    if k:
        out.append({'roles': ['r%d' % i for i in range(k)]})
    out.append(EVERYTHING)
    return out


# ---------------------------------------------------------------------------
# reference value of an accepted sentence whose leaves are ('text', s)
# ---------------------------------------------------------------------------
def text_ev(ast, roles):
    """True/False, or None when the sentence has a leaf whose meaning is not
    fixed by this property (attribute checks etc.)."""
    t = ast[0]
    if t == 'text':
        s = ast[1]
        if s == '@':
            return True
        if s == '!':
            return False
        if ':' not in s:
            return False           # a check not of the form kind:match behaves as `!`
        kind, match = s.split(':', 1)
        if kind == 'role' and '%' not in match:
            return match.lower() in roles
        return None
    if t == 'not':
        v = text_ev(ast[1], roles)
        return None if v is None else not v
    vs = [text_ev(x, roles) for x in ast[1]]
    if t == 'and':
        if any(v is False for v in vs):
            return False
        return None if any(v is None for v in vs) else True
    if any(v is True for v in vs):
        return True
    return None if any(v is None for v in vs) else False


def check_string(ctx, real, text, stratum, case, readings=((False, False),)):
    """`text` is a str rule.  Expected per reading: None (rejected -> deny
    everything) or an AST."""
    if not text.strip() or not expr.tokenize(text, ascii_ws=True):
        # whitespace-only text: neither "the empty string" nor a sentence; the
        # statement does not settle it
        ctx.unconstrained('whitespace-only-rule')
        return
    asts = []
    for ascii_ws, qpeel in readings:
        asts.append(expr.recognise(text, ascii_ws=ascii_ws, quote_after_peel=qpeel))
    rejected_all = all(a is None for a in asts)
    ctx.case(text, nontrivial=rejected_all, stratum=stratum)
    ctx.count('rejected_strings' if rejected_all else 'accepted_strings')
    if len(asts) > 1 and len({repr(a) for a in asts}) > 1:
        ctx.unconstrained('tokenisation-readings-differ')
    try:
        enf, tree = real.load(text, case.get('via', 'dict'))
    except LoadRejected as e:
        ctx.violation(classify_string(text, 'load-raises'), case, {'rule': text, 'load_error': str(e)})
        return
    try:
        roles_in_text = sorted({t[1].split(':', 1)[1].lower() for t in expr.tokenize(text)
                                if isinstance(t, tuple) and t[1].lower().startswith('role:')})[:4]
        creds_list = [{'roles': []}] + [{'roles': [r]} for r in roles_in_text]
        if roles_in_text:
            creds_list.append({'roles': roles_in_text})
        creds_list.append(dict(EVERYTHING, roles=EVERYTHING['roles'] + roles_in_text))
        for creds in creds_list:
            got = real.decide(enf, creds)
            ctx.count('enforce_calls')
            lowered = [r.lower() for r in creds['roles']]
            wants = set()
            for a in asts:
                wants.add(False if a is None else text_ev(a, lowered))
            if isinstance(got, str) and not rejected_all and stray_percent(text):
                # a grammatical sentence whose check contains a `%` outside a well-formed %(key)s placeholder: C04/C14
                # exclude that input class ("% only inside well-formed placeholders"), and C02 says nothing about it
                ctx.unconstrained('stray-percent-in-check')
                break
            if isinstance(got, str):
                ctx.violation(classify_string(text, 'enforce-raises'), case,
                              {'rule': text, 'creds': creds, 'observed': got,
                               'expected': 'deny' if rejected_all else 'a decision'})
                break
            if None in wants:
                ctx.count('leaf_meaning_open')
                continue
            if got not in wants:
                ctx.violation(classify_string(text, 'allows' if rejected_all else 'mismatch'), case,
                              {'rule': text, 'creds': creds, 'observed': got, 'expected': sorted(wants),
                               'recognised_as': 'not a sentence' if rejected_all else repr(asts[0])[:300]})
                break
    finally:
        if tree:
            tree.cleanup()
    drain_contracts(ctx, case, text)
    ctx.sample({'rule': text, 'sentence': not rejected_all}, stratum)


_PLACEHOLDER = re.compile(r'%\([^()%]*\)s')


def stray_percent(text):
    return '%' in _PLACEHOLDER.sub('', text)


def classify_string(text, outcome):
    toks = expr.tokenize(text)
    if len(toks) == 1 and not isinstance(toks[0], tuple):
        return 'lone-noncheck-token'          # D1: a single keyword / parenthesis / quoted string
    if expr.recognise(text) is None:
        return 'rejected-sentence-' + outcome
    return 'accepted-sentence-' + outcome


def drain_contracts(ctx, case, value):
    for name, info in contracts.drain():
        key = 'contract-' + name
        if isinstance(value, str):
            toks = expr.tokenize(value)
            if len(toks) == 1 and not isinstance(toks[0], tuple):
                key = 'lone-noncheck-token'
        ctx.violation(key, case, {'rule': value, 'contract': name, 'observed': info})


# ---------------------------------------------------------------------------
# non-rule values
# ---------------------------------------------------------------------------
SCALARS = [None, True, False, 0, 1, -1, 1.5, 0.0]
MAPPINGS = [{}, {'@': 1}, {'role:r0': 1}, {'@': '@'}, {'!': 1}, {'a': {'b': 1}}, {'': ''}, {'@': None}]


def is_rule_shaped(v):
    """string, or list of strings and lists of strings"""
    if isinstance(v, str):
        return True
    if isinstance(v, list):
        return all(isinstance(e, str) or (isinstance(e, list) and all(isinstance(i, str) for i in e)) for e in v)
    return False


def junk_to_deny(v):
    """The same list with every non-rule entry replaced by `!` (weaker reading)."""
    out = []
    for e in v:
        if isinstance(e, str):
            out.append(e)
        elif isinstance(e, list):
            out.append([i if isinstance(i, str) else '!' for i in e] if e else e)
        else:
            out.append('!')
    return out


def nonrule_values():
    vals = []
    vals.extend(SCALARS)
    vals.extend(MAPPINGS)
    junk = SCALARS + MAPPINGS + [[1], [None], [[]], [['@']], [{'@': 1}]]
    for j in junk:
        vals.append([j])                      # list holding a non-string
        vals.append([[j]])                    # inside an inner list
        vals.append(['role:r0', j])           # beside a valid entry
        vals.append([j, 'role:r0'])
        vals.append([['role:r0', j]])
        vals.append([[j, 'role:r0']])
        vals.append(['@', j])
        vals.append([['@'], [j]])
        vals.append([[j], ['@', j]])
    seen = []
    for v in vals:
        if not is_rule_shaped(v) and v not in seen or (v is not None and any(v is s for s in ())):
            seen.append(v)
    # keep type-distinct values apart (0 == False, 1 == True in Python)
    out = []
    keys = set()
    for v in vals:
        if is_rule_shaped(v):
            continue
        k = json.dumps(v, sort_keys=True)
        if k not in keys:
            keys.add(k)
            out.append(v)
    return out


def mechanism_for_value(v):
    """Mechanism key from the *shape* of the value (never from random data)."""
    def has_mapping(x):
        if isinstance(x, dict):
            return True
        if isinstance(x, list):
            return any(has_mapping(i) for i in x)
        return False
    if v is None:
        return 'null-rule-value'
    if isinstance(v, dict) or (v in (False, 0, 0.0) and not isinstance(v, (list, str))):
        return 'falsy-or-mapping-rule-value'
    if has_mapping(v):
        return 'falsy-or-mapping-rule-value'
    return 'nonrule-value'


def check_value(ctx, real, value, via, case):
    ctx.case([json.dumps(value, sort_keys=True), via], nontrivial=True, stratum='V')
    ctx.count('nonrule_values')
    try:
        enf, tree = real.load(value, via)
    except LoadRejected:
        ctx.count('nonrule_rejected_at_load')
        ctx.observe('nonrule_outcomes', 'rejected-at-load')
        drain_contracts(ctx, case, value)
        return
    try:
        alt = None
        if isinstance(value, list):
            weaker = junk_to_deny(value)
            alt = []
        outcomes = []
        for creds in probe_creds(2):
            got = real.decide(enf, creds)
            ctx.count('enforce_calls')
            outcomes.append(got)
        if all(o is False for o in outcomes):
            ctx.count('nonrule_denies')
            ctx.observe('nonrule_outcomes', 'denies')
        else:
            ok = False
            if isinstance(value, list) and not any(isinstance(o, str) for o in outcomes):
                # weaker reading: decision of the list with junk replaced by `!`
                real.enf.set_rules(real.policy.Rules.from_dict({'p': junk_to_deny(value)}))
                alt = [real.decide(real.enf, c) for c in probe_creds(2)]
                ok = alt == outcomes
                if ok:
                    ctx.unconstrained('mixed-list-junk-contributes-nothing')
                    ctx.observe('nonrule_outcomes', 'junk-entry-ignored')
            if not ok:
                kind = 'enforce-raises' if any(isinstance(o, str) for o in outcomes) else 'allows'
                mech = mechanism_for_value(value)
                key = mech if mech != 'nonrule-value' else 'nonrule-value-' + kind
                ctx.violation(key, case, {'value': value, 'via': via, 'observed': outcomes,
                                          'expected': 'rejected at load, or deny for every credential'})
    finally:
        if tree:
            tree.cleanup()
    drain_contracts(ctx, case, value)
    ctx.sample({'value': value, 'via': via}, 'V')


def item_ev(item, roles):
    """Meaning of one list item (a single check, never run through the text parser)."""
    if item == '@':
        return True
    if item == '!':
        return False
    if ':' not in item:
        return False                       # not kind:match -> behaves as `!`
    kind, match = item.split(':', 1)
    if kind == 'role' and '%' not in match:
        return match.lower() in roles
    return None


def check_string_list(ctx, real, value, case):
    """A list of strings and lists of strings (arbitrary strings!) must load and must be evaluable; where every item has a
    meaning fixed by C01/C02 the decision is OR over entries of AND over items."""
    ctx.case(['LS', json.dumps(value)], nontrivial=True, stratum='LS')
    ctx.count('string_lists')
    try:
        enf, tree = real.load(value, case.get('via', 'dict'))
    except LoadRejected as e:
        ctx.violation('load-raises-for-list-of-strings', case, {'value': value, 'load_error': str(e)})
        return
    try:
        for creds in ({'roles': []}, {'roles': ['a']}, {'roles': ['a', 'b']}, EVERYTHING):
            got = real.decide(enf, creds)
            ctx.count('enforce_calls')
            if isinstance(got, str):
                if any(stray_percent(i) for e in value for i in ([e] if isinstance(e, str) else e)):
                    ctx.unconstrained('stray-percent-in-check')
                    return
                ctx.violation('list-of-strings-enforce-raises', case, {'value': value, 'creds': creds, 'observed': got})
                return
            roles = [r.lower() for r in creds['roles']]
            if not value:
                want = True
            else:
                ors = []
                for entry in value:
                    if not entry:
                        continue
                    items = [entry] if isinstance(entry, str) else entry
                    vals = [item_ev(i, roles) for i in items]
                    ors.append(False if any(v is False for v in vals) else (None if any(v is None for v in vals) else True))
                want = True if any(o is True for o in ors) else (None if any(o is None for o in ors) else False)
            if want is not None and got != want:
                ctx.violation('list-of-strings-mismatch', case, {'value': value, 'creds': creds, 'expected': want, 'observed': got})
                return
    finally:
        if tree:
            tree.cleanup()
    drain_contracts(ctx, case, None)
    ctx.sample({'value': value}, 'LS')
    # a TEXT rule that merely looks like the printed form of the list just loaded is still text: it is judged by the
    # rule language (usually: not a sentence, or a colon-less check -> deny), never by what the list meant
    for text in (repr(value), json.dumps(value)):
        if value:
            ctx.count('text_spelling_of_a_list_rule')
            check_string(ctx, real, text, 'X', dict(s='X', text=text, after_list=value))


YAML_SPELLINGS = [('p:\n', None), ('p: ~\n', None), ('p: null\n', None), ('p: !\n', None), ('p: no\n', False),
                  ('p: off\n', False), ('p: false\n', False), ('p: 0\n', 0), ('p: {}\n', {}), ('p: yes\n', True),
                  ('p: 1\n', 1), ('p: 1.5\n', 1.5), ('p: {"@": 1}\n', {'@': 1}), ('p:\n  "@": 1\n', {'@': 1}),
                  ('p:\n- {"@": 1}\n', [{'@': 1}]), ('p: 2001-01-01\n', 'date'), ('p: 0x10\n', 16), ('p: .inf\n', 'inf'),
                  ('p: !!binary aGk=\n', 'bytes'), ('p: !!set {a, b}\n', 'set')]


def check_yaml_spelling(ctx, real, text, parsed, case):
    ctx.case(['yaml', text], True, 'V')
    ctx.count('nonrule_values')
    try:
        enf, tree = real.load(text, 'yaml-text')
    except LoadRejected:
        ctx.count('nonrule_rejected_at_load')
        return
    try:
        outcomes = [real.decide(enf, c) for c in probe_creds(2)]
        ctx.count('enforce_calls', len(outcomes))
        if not all(o is False for o in outcomes):
            mech = mechanism_for_value(parsed) if not isinstance(parsed, str) else 'nonrule-value'
            kind = 'enforce-raises' if any(isinstance(o, str) for o in outcomes) else 'allows'
            key = mech if mech != 'nonrule-value' else 'nonrule-value-' + kind
            ctx.violation(key, case, {'yaml': text, 'observed': outcomes,
                                      'expected': 'rejected at load, or deny for every credential'})
    finally:
        tree.cleanup()
    drain_contracts(ctx, case, parsed if not isinstance(parsed, str) else None)
    ctx.sample({'yaml_file': text}, 'V')


# ---------------------------------------------------------------------------
ALPHA8 = ['(', ')', 'and', 'or', 'not', 'c', 'w', 'q']
ALPHA6 = ['(', ')', 'and', 'or', 'not', 'c']
WORDS = ['abc', 'role', 'True', '1', 'None', 'is_admin', 'admin_required', 'rule', 'http', '@@', '!!', '%(x)s', 'é',
         'a.b', '*', 'all', 'true', 'yes', '@!', '-', '1.5', 'r0',
         # compatibility look-alikes of the two constants: other characters, hence ordinary colon-less words (deny)
         '\uff20', '\ufe6b', '\uff01', '\ufe57', '\uff20\uff20', '(\uff20)', '\u24d0', '\uff41\uff4c\uff4c']
LONE = ['not', 'and', 'or', 'NOT', 'And', '(', ')', '((', '))', '"abc"', "'abc'", '""', "''", '"role:r0"', "'@'", '"@"']
FRAGS = ['role:a', 'role:b', 'role:A', '@', '!', 'and', 'or', 'not', 'AND', 'Not', '(', ')', '((', '))', '(role:a',
         'role:b)', '"q"', "'q'", '"', "'", 'junk', 'ro le', 'role:a)', '(@)', 'é', ':', '::', 'a:', 'not(', '(not',
         'and)', 'or(', '"role:a"', '(("q"', "'@')", 'is_admin:True', 'rule:zz', '%', 'role:', ':a', '（', '）', '\\', ',',
         '[', ']', '{', '}', '\x00', '\x7f', '‮', '“', '”',
         # full-width / small-form look-alikes of the constants, the keywords and a check
         '\uff20', '\ufe6b', '\uff01', '\uff41\uff4e\uff44', '\uff4f\uff52', '\uff4e\uff4f\uff54', '\uff52\uff4f\uff4c\uff45\uff1aa', 'role\uff1aa']
SEPS = ['', ' ', ' ', ' ', '  ', '\t', '\n', '\r\n', '\x0b', '\x0c'] + expr.UNICODE_WS


def seq_text(seq):
    out = []
    k = 0
    for s in seq:
        if s == 'c':
            out.append('role:r%d' % k)
            k += 1
        elif s == 'w':
            out.append('word')
        elif s == 'q':
            out.append('"quoted"')
        else:
            out.append(s)
    return ' '.join(out), k


ALL_READINGS = ((False, False), (True, False), (False, True), (True, True))


def corrupt(rnd, seq):
    seq = list(seq)
    op = rnd.randrange(5)
    pool = ['(', ')', 'and', 'or', 'not', 'c', 'w', 'q']
    if op == 0 and len(seq) > 1:
        del seq[rnd.randrange(len(seq))]
    elif op == 1:
        seq.insert(rnd.randint(0, len(seq)), rnd.choice(pool))
    elif op == 2:
        seq[rnd.randrange(len(seq))] = rnd.choice(pool)
    elif op == 3:
        seq.insert(rnd.randint(0, len(seq)), rnd.choice('()'))
    else:
        idx = [i for i, t in enumerate(seq) if t in '()']
        if idx:
            del seq[rnd.choice(idx)]
        else:
            seq.append(')')
    return seq


def run(ctx):
    ctx.reserve(0.8)          # the strata that come last (overlapping operations) keep a fifth of the wall budget
    contracts.parse_rule_returns_check()
    real = Real()
    b = BOUNDS[ctx.tier]
    done = True
    # V: non-rule values (every shard takes a slice)
    vias = ['parse_rule', 'dict', 'load-json', 'load-yaml', 'file-json', 'file-yaml']
    idx = 0
    for value in nonrule_values():
        for via in vias:
            if ctx.mine(idx):
                check_value(ctx, real, value, via, dict(s='V', value=value, via=via))
            idx += 1
    for text, parsed in YAML_SPELLINGS:
        if ctx.mine(idx):
            check_yaml_spelling(ctx, real, text, parsed, dict(s='Y', yaml=text, parsed=parsed))
        idx += 1
    ctx.stratum('V', exhaustive=True)
    # T: one-token rules
    for w in WORDS + LONE:
        for via in ('dict', 'file-json', 'file-yaml'):
            if ctx.mine(idx):
                check_string(ctx, real, w, 'T', dict(s='T', text=w, via=via))
            idx += 1
    ctx.stratum('T', exhaustive=True)
    # S: exhaustive sequences (cumulative shares of the wall budget from here on: a stratum that is cut short on a loaded
    # machine must not take the later ones with it - they have floors in MIN)
    ctx.reserve(0.45)
    ctx.stratum('S', exhaustive=False)
    idx = 0
    for alpha, L in ((ALPHA8, b['L8']), (ALPHA6, b['L6'])):
        for n in range(1, L + 1):
            if alpha is ALPHA6 and n <= b['L8']:
                continue                           # already covered by the larger alphabet
            for seq in itertools.product(alpha, repeat=n):
                idx += 1
                if not ctx.mine(idx):
                    continue
                if ((idx // ctx.nshards) & 0x7f) == 0 and ctx.expired():      # counted per shard: idx itself is filtered by mine()
                    done = False
                    break
                text, k = seq_text(seq)
                check_string(ctx, real, text, 'S', dict(s='S', text=text))
            if not done:
                break
        if not done:
            break
    ctx.stratum('S', exhaustive=done)
    # E: corruptions of grammatical sentences
    ctx.reserve(0.6)
    rnd = ctx.rnd
    pools = [expr.sentences(n) for n in range(1, 14)]
    pools = [p for p in pools if p]
    for i in range(b['nE'] // ctx.nshards + 1):
        if (i & 0xff) == 0 and ctx.expired():
            break
        seq = corrupt(rnd, rnd.choice(rnd.choice(pools)))
        if rnd.random() < 0.3:
            seq = corrupt(rnd, seq)
        text, k = seq_text(seq)
        check_string(ctx, real, text, 'E', dict(s='E', text=text, via='dict' if i % 6 else ('file-json', 'file-yaml')[(i // 6) % 2]))
    ctx.stratum('E', exhaustive=False)
    # R: random strings
    ctx.reserve(0.72)
    for i in range(b['nR'] // ctx.nshards + 1):
        if (i & 0xff) == 0 and ctx.expired():
            break
        text = ''.join(rnd.choice(FRAGS) + rnd.choice(SEPS) for _ in range(rnd.randint(1, 7)))
        if not text:
            continue
        via = 'dict' if rnd.random() < 0.9 else rnd.choice(['file-json', 'load-json'])
        check_string(ctx, real, text, 'R', dict(s='R', text=text, via=via), readings=ALL_READINGS)
    ctx.stratum('R', exhaustive=False)
    # LS: lists of arbitrary strings
    ctx.reserve(0.8)
    pool = WORDS + LONE + [f for f in FRAGS if f.strip()] + ['role:a', 'role:b', '@', '!', 'role:a and role:b', 'not role:a', '(role:a)']
    for i in range(b['nR'] // (4 * ctx.nshards) + 1):
        if (i & 0xff) == 0 and ctx.expired():
            break
        value = []
        for _ in range(rnd.randint(0, 4)):
            r = rnd.random()
            if r < 0.15:
                value.append([])
            elif r < 0.4:
                value.append(rnd.choice(pool))
            else:
                value.append([rnd.choice(pool) for _ in range(rnd.randint(1, 3))])
        via = 'dict' if rnd.random() < 0.8 else rnd.choice(['file-json', 'load-json', 'parse_rule'])
        check_string_list(ctx, real, value, dict(s='LS', value=value, via=via))
    ctx.stratum('LS', exhaustive=False)
    ctx.release()
    # O: overlapping loads, last (the line-level scheduler slows everything that runs after it is installed)
    from pv.mon import sched
    ctx.stratum('O', exhaustive=False)
    ctx.reserve(0.9)          # the first-use schedules (fresh interpreters) keep the last tenth
    try:
        for i in range(OVERLAPS[ctx.tier]):
            if ctx.expired():
                break
            r = ctx.sub_rnd('O', ctx.tier, ctx.shard, i)
            check_overlap(ctx, real, dict(s='O', bad=r.choice(OVERLAP_BAD), good=r.choice(OVERLAP_GOOD), bad_first=r.random() < 0.5,
                                          rseed='%s.%d.%d' % (ctx.tier, ctx.shard, i)))
    finally:
        sched.uninstall()
    ctx.release()
    run_first_use(ctx)
    for k, v in contracts.EVALS.items():
        ctx.count('contract_evals.' + k, v)


OVERLAP_BAD = ['not', '(', ')', 'and', 'or', '"q"', "'q'", 'role:r0 role:r1', '(role:r0', 'role:r0)', 'not not', 'role:r0 and',
               'or role:r0', '((', 'not (', 'role:r0 or or role:r1', '@ !', 'not and', '@ @', '( @', '@ )', 'foobar', 'not foobar or',
               None, False, 0, 1.5, {'@': 1}, [['@', 5]], [[None]], [{'@': 1}], [[['@']]]]
OVERLAP_GOOD = ['@', '', 'role:r0 or @', 'not !', '(@)', '@ or @', 'role:r0 or not role:r0', [], [['@']], [[], ['@']],
                'role:r1 or (@ and @)', 'not (role:r0 and !)']
OVERLAPS = {'quick': 6, 'thorough': 120}


def check_overlap(ctx, real, case):
    """A malformed rule (or non-rule value) is loaded and enforced by one thread while another thread loads and enforces a
    permissive, well-formed rule: the malformed one still denies everybody (or is rejected), the permissive one still allows."""
    from pv.mon import overlap
    bad, good = case['bad'], case['good']
    creds = [{'roles': []}, {'roles': ['r0']}, EVERYTHING]
    P = real.policy

    def mk(value, enf):
        def make():
            def run_():
                try:
                    enf.set_rules(P.Rules.from_dict({'p': value}))
                except Exception:
                    return 'rejected-at-load'
                out = []
                for c in creds:
                    try:
                        out.append(bool(enf.enforce('p', dict(TARGET), json.loads(json.dumps(c)))))
                    except Exception as e:
                        out.append('EXC:' + type(e).__name__)
                return out
            return run_
        return make
    first, second = (mk(bad, real.enf), mk(good, real.enf2)) if case['bad_first'] else (mk(good, real.enf2), mk(bad, real.enf))
    ctx.case(['O', repr(bad), repr(good), case['bad_first']], True, 'O')
    detail = {'malformed_or_nonrule_value': bad, 'permissive_rule': good, 'pre-empted_operation': 'malformed' if case['bad_first'] else 'permissive'}
    if overlap.pair(ctx, first, second, case, detail, ctx.sub_rnd('Ob', case['rseed']), limit=100):
        got = mk(bad, real.enf)()()
        ctx.count('enforce_calls', 3)
        if got != 'rejected-at-load' and got != [False, False, False]:
            key = 'nonrule-value-allows' if not isinstance(bad, str) else 'rejected-sentence-allows'
            if any(isinstance(g, str) for g in got):
                key = 'rejected-sentence-enforce-raises'
            ctx.violation(key, case, dict(detail, observed=got))


FIRST_USE = {'quick': dict(sampled=3, cap=14), 'thorough': dict(sampled=30, cap=120)}
FIRST_USE_BAD = ['role:a role:b', 'not', '( role:a', 'role:a or', '"role:a"', 'role:a )', 'and role:a', 'role:a and or role:b']
FIRST_USE_GOOD = ['@', 'role:a or not role:a', 'not !', '(@)']


def judge_first_use(ctx, case, base, got):
    """The very first rules this process loads are a malformed one and a permissive one, loaded by two threads at the same
    time: the malformed one denies everybody, the permissive one allows everybody."""
    bad_is = case['pair'].index(case['bad']) if 'bad' in case else 0
    for n, idx in (('A', 0), ('B', 1)):
        first = got['first'].get(n)
        decisions = first[1] if isinstance(first, list) else first
        want_allow = idx != bad_is
        ok = isinstance(decisions, list) and all(d is want_allow for d in decisions)
        if not ok:
            raised = not isinstance(decisions, list) or any(isinstance(d, str) for d in decisions)
            key = ('rejected-sentence-enforce-raises' if raised else 'rejected-sentence-allows') if not want_allow else 'accepted-sentence-mismatch'
            ctx.violation(key, case, {'rule': case['pair'][idx], 'expected': 'deny for every credential' if not want_allow else 'allow',
                                      'observed': decisions, 'situation': 'first use of the library in this process, two threads at once',
                                      'a_preempted_at_boundary': case['k'], 'a_preempted_at': got['stopped_at'].get('A'),
                                      'one_after_the_other': base['first'].get(n)})
            return


def run_first_use(ctx):
    from pv.mon import firstuse
    ctx.stratum('first-use', exhaustive=False)
    bad = FIRST_USE_BAD[ctx.shard % len(FIRST_USE_BAD)]
    good = FIRST_USE_GOOD[ctx.shard % len(FIRST_USE_GOOD)]
    pair = [bad, good] if (ctx.shard // 2) % 2 == 0 else [good, bad]
    b = FIRST_USE[ctx.tier]
    firstuse.schedules(ctx, pair, lambda c, case, base, got: judge_first_use(c, dict(case, bad=bad), base, got), b['sampled'], b['cap'],
                       parity=ctx.shard % 2 if ctx.tier == 'quick' else None)


def replay(ctx, case):
    contracts.parse_rule_returns_check()
    if case.get('first_use'):
        from pv.mon import firstuse
        return firstuse.replay_one(ctx, case, judge_first_use)
    real = Real()
    s = case.get('s')
    if s == 'O':
        return check_overlap(ctx, real, case)
    if s == 'LS':
        check_string_list(ctx, real, case['value'], case)
    elif s == 'V':
        check_value(ctx, real, case['value'], case['via'], case)
    elif s == 'Y':
        check_yaml_spelling(ctx, real, case['yaml'], case.get('parsed'), case)
    else:
        if case.get('after_list') is not None:
            try:
                real.load(case['after_list'], 'dict')          # the list rule that was parsed just before
            except LoadRejected:
                pass
        check_string(ctx, real, case['text'], s or 'R', case,
                     readings=ALL_READINGS if s == 'R' else ((False, False),))
