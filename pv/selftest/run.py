"""Self-validation of the monitors (not part of the registered commands).

  /venv/bin/python -m pv.selftest.run [mutant-id-prefix ...] [--par N] [--tier quick]
  /venv/bin/python -m pv.selftest.run --seeded            # the kept sub-agent changes under /verif/seeded

For every mutant: copy /repo to a scratch directory, apply the edit, run the
repository's own suite on the copy (a mutant the suite notices is unrealistic
and is reported as `suite-kills`), then run the property's check with
VERIF_REPO pointing at the copy and VERIF_OUT_DIR at a scratch directory.
Expected: exit 1 and a `VIOLATION property=<id>` line.  The copy is removed
immediately afterwards."""
import concurrent.futures
import glob
import json
import os
import re
import shutil
import subprocess
import sys
import tempfile
import time

HERE = os.path.dirname(os.path.dirname(os.path.dirname(os.path.abspath(__file__))))
REPO = '/repo'
BASE_FAIL = 'test_reloading_cache_with_permission_denied'


def suite_ok(copy):
    p = subprocess.run(['/venv/bin/python', '-m', 'pytest', '-q', '-p', 'no:cacheprovider', '--timeout=900', '-x',
                        '--deselect', 'oslo_policy/tests/test_cache_handler.py::CacheHandlerTest::' + BASE_FAIL,
                        'oslo_policy/tests'], cwd=copy, capture_output=True, text=True, timeout=900,
                       env=dict(os.environ, PYTHONDONTWRITEBYTECODE='1'))
    tail = p.stdout.strip().splitlines()[-1] if p.stdout.strip() else p.stderr[-200:]
    return p.returncode == 0, tail


def run_check(copy, prop, tier, out):
    env = dict(os.environ, VERIF_REPO=copy, VERIF_OUT_DIR=out, PYTHONDONTWRITEBYTECODE='1')
    t0 = time.time()
    p = subprocess.run([os.path.join(HERE, 'check'), prop, tier], cwd=HERE, capture_output=True, text=True, env=env, timeout=3600)
    keys = re.findall(r'mechanism=(\S+)', p.stdout)
    viol = re.findall(r'^VIOLATION property=(\S+)', p.stdout, re.M)
    known = re.findall(r'^KNOWN-FINDING: property=\S+ key=(\S+)', p.stdout, re.M)
    if known:
        keys = keys + ['known:' + k for k in known]
    return p.returncode, viol, keys, round(time.time() - t0, 1), p.stdout[-600:]


def check_replays(copy, prop, out, limit=3):
    """Every replay file the check wrote must (a) reproduce the violation against the changed copy and (b) hold - not
    crash - against the unchanged /repo.  Returns a summary dict."""
    files = sorted(glob.glob(os.path.join(out, 'replays', prop, '*.json')))[:limit]
    res = dict(files=len(files), reproduced=0, held_on_unchanged=0, broken=[])
    for f in files:
        for target, want in ((copy, 1), (REPO, 0)):
            env = dict(os.environ, VERIF_REPO=target, VERIF_OUT_DIR=out, PYTHONDONTWRITEBYTECODE='1')
            try:
                p = subprocess.run([os.path.join(HERE, 'check'), prop, '--replay', f], cwd=HERE, capture_output=True, text=True,
                                   env=env, timeout=900)
                rc, tail = p.returncode, (p.stdout + p.stderr)[-300:]
            except subprocess.TimeoutExpired:
                rc, tail = 'timeout', ''
            if rc == want:
                res['reproduced' if want == 1 else 'held_on_unchanged'] += 1
            else:
                res['broken'].append(dict(file=os.path.basename(f), against='changed' if want == 1 else 'unchanged', rc=rc, tail=tail))
    return res


def one(mut, tier):
    scratch = tempfile.mkdtemp(prefix='pvmut-')
    copy = os.path.join(scratch, 'repo')
    out = os.path.join(scratch, 'out')
    try:
        shutil.copytree(REPO, copy, ignore=shutil.ignore_patterns('.git', '__pycache__', '*.pyc', '.tox', '*.egg-info'))
        if 'patch' in mut:
            p = subprocess.run(['git', 'apply', '--unsafe-paths', '--directory=' + copy, mut['patch']], capture_output=True, text=True, cwd=copy)
            if p.returncode != 0:
                p = subprocess.run(['patch', '-p1', '-i', mut['patch']], capture_output=True, text=True, cwd=copy)
            if p.returncode != 0:
                return dict(id=mut['id'], prop=mut['prop'], verdict='patch-does-not-apply', detail=(p.stderr or p.stdout)[-200:])
        else:
            path = os.path.join(copy, mut['file'])
            src = open(path).read()
            if src.count(mut['old']) != 1:
                return dict(id=mut['id'], prop=mut['prop'], verdict='edit-does-not-apply', detail='old text found %d times' % src.count(mut['old']))
            open(path, 'w').write(src.replace(mut['old'], mut['new']))
            for f2, old2, new2 in mut.get('also_edit', []):
                path2 = os.path.join(copy, f2)
                src2 = open(path2).read()
                if src2.count(old2) != 1:
                    return dict(id=mut['id'], prop=mut['prop'], verdict='edit-does-not-apply', detail='second edit: old text found %d times' % src2.count(old2))
                open(path2, 'w').write(src2.replace(old2, new2))
            c = subprocess.run(['/venv/bin/python', '-m', 'py_compile', path], capture_output=True, text=True)
            if c.returncode != 0:
                return dict(id=mut['id'], prop=mut['prop'], verdict='does-not-compile', detail=c.stderr[-200:])
        ok, tail = suite_ok(copy)
        if not ok:
            return dict(id=mut['id'], prop=mut['prop'], verdict='suite-kills', detail=tail)
        res = {}
        for prop in [mut['prop']] + list(mut.get('also', [])):
            rc, viol, keys, secs, tail = run_check(copy, prop, tier, out)
            res[prop] = dict(rc=rc, violation_for=viol, keys=keys, secs=secs)
            if rc not in (0, 1):
                res[prop]['tail'] = tail
            if rc == 1 and not mut.get('benign') and os.environ.get('PV_SELFTEST_REPLAYS', '1') != '0':
                res[prop]['replays'] = check_replays(copy, prop, out)
        if mut.get('benign'):
            # a behaviour-preserving change: every check must stay silent (exit 0)
            loud = {p: v for p, v in res.items() if v['rc'] != 0}
            return dict(id=mut['id'], prop=mut['prop'], verdict='silent-on-all-checks' if not loud else 'ALARM-on-benign-change',
                        note=mut.get('note', ''), alarms={p: dict(rc=v['rc'], keys=v['keys']) for p, v in loud.items()}, checks=res)
        r = res[mut['prop']]
        verdict = 'caught' if (r['rc'] == 1 and mut['prop'] in r['violation_for']) else 'MISSED' if r['rc'] == 0 else 'check-exit-%s' % r['rc']
        if verdict == 'MISSED' and mut.get('equivalent'):
            verdict = 'not-flagged-equivalent'
        elif verdict == 'caught' and mut.get('equivalent'):
            verdict = 'FALSE-ALARM-on-equivalent-mutant'
        return dict(id=mut['id'], prop=mut['prop'], verdict=verdict, note=mut.get('equivalent') or mut.get('note', ''), checks=res)
    finally:
        shutil.rmtree(scratch, ignore_errors=True)


def seeded():
    out = []
    for meta in sorted(glob.glob(os.path.join(HERE, 'seeded', '*', 'meta.json'))):
        d = json.load(open(meta))
        out.append(dict(id='seeded-' + os.path.basename(os.path.dirname(meta)), prop=d['property'],
                        patch=os.path.join(os.path.dirname(meta), 'patch.diff'), note=d.get('needs', ''),
                        also=d.get('also_check', [])))
    return out


ALL_PROPS = ['C%02d' % i for i in range(1, 21)]


def benign():
    """Behaviour-preserving refactorings kept under /verif/benign/<name>/ (patch.diff, notes.md, meta.json): all twenty
    checks are run against each and must stay silent."""
    out = []
    for meta in sorted(glob.glob(os.path.join(HERE, 'benign', '*', 'meta.json'))):
        d = json.load(open(meta))
        out.append(dict(id='benign-' + os.path.basename(os.path.dirname(meta)), prop='C01', also=ALL_PROPS[1:], benign=True,
                        patch=os.path.join(os.path.dirname(meta), 'patch.diff'), note=d.get('theme', '')))
    return out


def main(argv):
    sys.path.insert(0, HERE)
    par, tier, want, use_seeded = 3, 'quick', [], False
    use_benign = False
    it = iter(argv)
    for a in it:
        if a == '--par':
            par = int(next(it))
        elif a == '--tier':
            tier = next(it)
        elif a == '--seeded':
            use_seeded = True
        elif a == '--benign':
            use_benign = True
        else:
            want.append(a)
    if use_benign:
        muts = benign()
    elif use_seeded:
        muts = seeded()
    else:
        from pv.selftest import mutants
        muts = mutants.M
    if want:
        muts = [m for m in muts if any(m['id'].startswith(w) or m['prop'] == w for w in want)]
    results = []
    with concurrent.futures.ThreadPoolExecutor(par) as ex:
        futs = {ex.submit(one, m, tier): m for m in muts}
        for f in concurrent.futures.as_completed(futs):
            try:
                r = f.result()
            except Exception as e:
                r = dict(id=futs[f]['id'], prop=futs[f]['prop'], verdict='runner-error', detail=repr(e)[:300])
            results.append(r)
            c = r.get('checks', {}).get(r['prop'], {})
            rp = c.get('replays')
            rps = '' if not rp else ' replays %d/%d/%d%s' % (rp['files'], rp['reproduced'], rp['held_on_unchanged'],
                                                              ' BROKEN-REPLAY' if rp['broken'] else '')
            print('%-34s %-4s %-22s %s %s%s' % (r['id'], r['prop'], r['verdict'], ','.join(c.get('keys', [])) or r.get('detail', ''),
                                                ('%ss' % c.get('secs')) if c else '', rps), flush=True)
    results.sort(key=lambda r: r['id'])
    name = 'selftest_benign.json' if use_benign else 'selftest_seeded.json' if use_seeded else 'selftest_results.json'
    for r in results:
        if r.get('alarms'):
            print('  ALARMS on %s: %s' % (r['id'], json.dumps(r['alarms'])))
    path = os.path.join(HERE, name)
    old = []
    if want and os.path.exists(path):
        old = [r for r in json.load(open(path)) if r['id'] not in {x['id'] for x in results}]
    with open(path, 'w') as f:
        json.dump(sorted(old + results, key=lambda r: r['id']), f, indent=1)
    missed = [r['id'] for r in results if r['verdict'] == 'MISSED']
    print('caught %d, missed %d, unrealistic/other %d' % (sum(r['verdict'] == 'caught' for r in results), len(missed),
                                                           sum(r['verdict'] not in ('caught', 'MISSED') for r in results)))
    return 0


if __name__ == '__main__':
    sys.exit(main(sys.argv[1:]))
