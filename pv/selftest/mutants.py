"""Deliberate property-breaking edits used to validate the monitors.

Each entry: (mutant id, property, file, old text, new text, what it breaks).
The runner applies one edit to a scratch copy of /repo, keeps the mutant only
if the repository's own suite still passes on the copy, and requires the
property's quick check to exit 1 with a VIOLATION for that property."""

M = []


def m(mid, prop, path, old, new, note):
    M.append(dict(id=mid, prop=prop, file=path, old=old, new=new, note=note))


P = 'oslo_policy/_parser.py'
C = 'oslo_policy/_checks.py'
Y = 'oslo_policy/policy.py'
G = 'oslo_policy/generator.py'
S = 'oslo_policy/shell.py'
E = 'oslo_policy/_external.py'
H = 'oslo_policy/_cache_handler.py'

# ---- C01 ------------------------------------------------------------------
m('c01-pop-first', 'C01', C, "        check = self.rules.pop()\n        return self, check",
  "        check = self.rules.pop(0)\n        return self, check", "'A or B and C' re-balancing pops the wrong operand")
m('c01-and-two', 'C01', C, "        for rule in self.rules:\n            if not _check(rule, target, cred, enforcer, current_rule):\n                return False\n\n        return True",
  "        for rule in self.rules[:3]:\n            if not _check(rule, target, cred, enforcer, current_rule):\n                return False\n\n        return True",
  'AndCheck ignores operands after the third')
m('c01-peel-one', 'C01', P, "        clean = tok.rstrip(')')\n        trail = len(tok) - len(clean)",
  "        clean = tok[:-2] if tok.endswith(')))') else tok.rstrip(')')\n        trail = len(tok) - len(clean)",
  'three or more closing parentheses glued to a check lose one')
m('c01-mix-nested', 'C01', P, "        if isinstance(check1, _checks.AndCheck):\n            and_expr = check1\n            and_expr.add_check(check)",
  "        if isinstance(check1, _checks.AndCheck):\n            and_expr = check1\n            and_expr.rules.insert(0, check) if len(and_expr.rules) > 3 else and_expr.add_check(check)",
  'harmless reorder - should NOT be flagged (semantics preserved): negative control')
m('c01-not-binds-loose', 'C01', P, "    @reducer('not', 'check')\n    def _make_not_expr(self, _not, check):",
  "    @reducer('not', 'and_expr')\n    @reducer('not', 'check')\n    def _make_not_expr(self, _not, check):",
  'extra reducer: not over an and_expr (changes precedence of not for some shapes)')
m('c01-list-inner-or', 'C01', P, "            or_list.append(_checks.AndCheck(and_list))",
  "            or_list.append(_checks.AndCheck(and_list) if len(and_list) < 3 else _checks.OrCheck(and_list))",
  'list-of-lists: inner lists of three items are OR-ed')

# ---- C02 ------------------------------------------------------------------
m('c02-revert-d1', 'C02', P, "        if state.tokens and state.tokens[0] not in ('check', 'and_expr',\n                                                    'or_expr'):\n            raise ValueError('Could not parse rule')\n",
  "", 'revert fix D1 (lone operator / quoted string)')
m('c02-revert-d2', 'C02', P, "    if isinstance(rule, (list, tuple)):\n        return _parse_list_rule(rule)\n\n    # Anything else (null, a boolean, a number, a mapping) is not a rule; fail\n    # closed.  Note that an unquoted ``!`` in a YAML file is read as null.\n    LOG.error('Failed to understand rule %s', rule)\n    return _checks.FalseCheck()",
  "    if rule is None:\n        return _checks.FalseCheck()\n    return _parse_list_rule(rule)", 'revert fix D2 (falsy / mapping values)')
m('c02-leftover-first', 'C02', P, "    except ValueError:\n        # Couldn't parse the rule\n        LOG.exception('Failed to understand rule %s', rule)\n\n        # Fail closed\n        return _checks.FalseCheck()",
  "    except ValueError:\n        # Couldn't parse the rule\n        LOG.exception('Failed to understand rule %s', rule)\n        if len(state.values) == 2 and state.tokens == ['check', 'check']:\n            return state.values[0]\n\n        # Fail closed\n        return _checks.FalseCheck()",
  'two adjacent checks: the first one is used instead of failing closed')
m('c02-nocolon-true', 'C02', P, "    try:\n        kind, match = rule.split(':', 1)\n    except Exception:\n        LOG.exception('Failed to understand rule %s', rule)\n        # If the rule is invalid, we'll fail closed\n        return _checks.FalseCheck()",
  "    try:\n        kind, match = rule.split(':', 1)\n    except Exception:\n        LOG.exception('Failed to understand rule %s', rule)\n        # If the rule is invalid, we'll fail closed\n        return _checks.FalseCheck() if not rule.startswith('*') else _checks.TrueCheck()",
  "a colon-less token starting with '*' allows")

# ---- C03 ------------------------------------------------------------------
m('c03-default-for-empty', 'C03', Y, "        elif not self.rules:\n            # No rules to reference means we're going to fail closed\n            result = False",
  "        elif not self.rules and not isinstance(self.default_rule, _checks.BaseCheck):\n            # No rules to reference means we're going to fail closed\n            result = False",
  'empty rule set + check-object default no longer fails closed')
m('c03-default-not-in-self', 'C03', Y, "        if self.default_rule not in self:\n            raise KeyError(key)",
  "        if self.default_rule not in self and key != 'zzz':\n            raise KeyError(key)", 'self-recursion guard dropped for one name')
m('c03-default-for-defined-deny', 'C03', Y, "            try:\n                to_check = self.rules[rule]\n            except KeyError:",
  "            try:\n                to_check = self.rules[rule]\n                if str(to_check) == '!' and self.rules.default_rule in self.rules and rule != self.rules.default_rule:\n                    to_check = self.rules[self.rules.default_rule]\n            except KeyError:",
  'a defined always-deny rule falls back to the default rule')

# ---- C04 ------------------------------------------------------------------
m('c04-no-lower-creds', 'C04', C, "            return match.lower() in [x.lower() for x in creds['roles']]",
  "            return match.lower() in [x.lower() if x.isascii() else x for x in creds['roles']]", 'non-ASCII roles are not case-folded')
m('c04-substring', 'C04', C, "            return match.lower() in [x.lower() for x in creds['roles']]",
  "            return match.lower() in ' '.join(x.lower() for x in creds['roles']).split(' ') or (len(match) > 5 and any(match.lower() in x.lower() for x in creds['roles']))",
  'long role names match as substrings')
m('c04-missing-roles-allow', 'C04', C, "        if 'roles' in creds:\n            return match.lower() in [x.lower() for x in creds['roles']]\n        return False",
  "        if 'roles' in creds:\n            return match.lower() in [x.lower() for x in creds['roles']]\n        return match == ''", 'no roles entry: empty role name allows (never generated -> expect MISS unless placeholder gives empty)')

# ---- C05 ------------------------------------------------------------------
m('c05-all-instead-of-any', 'C05', C, "            for val in test_value:\n                if self._find_in_dict(val, path_segments, match):\n                    return True\n            return False",
  "            if len(test_value) > 2:\n                return all(self._find_in_dict(val, path_segments, match) for val in test_value)\n            for val in test_value:\n                if self._find_in_dict(val, path_segments, match):\n                    return True\n            return False",
  'lists longer than two need all elements to match')
m('c05-no-str', 'C05', C, "        if len(path_segments) == 0:\n            return match == str(test_value)",
  "        if len(path_segments) == 0:\n            return match == (test_value if isinstance(test_value, str) else str(test_value).lower())",
  'non-string values compared by lower-cased string form (True/None differ)')
m('c05-revert-d6-path', 'C05', C, "        except (KeyError, TypeError):\n            # Either the key is missing or the path runs into something\n            # that is not a container; neither can match\n            return False",
  "        except KeyError:\n            return False", 'revert fix D6 (path walk)')

# ---- C06 ------------------------------------------------------------------
m('c06-current-rule-alias', 'C06', C, "                rule=enforcer.rules[self.match],\n                target=target,\n                creds=creds,\n                enforcer=enforcer,\n                current_rule=current_rule,",
  "                rule=enforcer.rules[self.match],\n                target=target,\n                creds=creds,\n                enforcer=enforcer,\n                current_rule=self.match,", 'nested checks are told the alias, not the enforced policy')
m('c06-argcount', 'C06', C, "    if len(argspec.args) > 4:", "    if len(argspec.args) >= 4:", '3-argument check classes get a 4th argument')
m('c06-keyerror-allow', 'C06', C, "        except KeyError:\n            # We don't have any matching rule; fail closed\n            return False",
  "        except KeyError:\n            # We don't have any matching rule; fail closed\n            return self.match.endswith('2')", "undefined reference whose name ends in '2' allows")

# ---- C07 ------------------------------------------------------------------
m('c07-ignore-kwargs', 'C07', Y, "                raise exc(*args, **kwargs)", "                raise exc(*args)", 'custom exception loses keyword arguments')
m('c07-falsy-string', 'C07', Y, "        if do_raise and not result:", "        if do_raise and result in (False, None):", "odd falsy results ('' / 0 / []) are returned under do_raise")
m('c07-debug-mutates', 'C07', Y, "                creds_dict = strutils.mask_dict_password(creds)",
  "                creds_dict = strutils.mask_dict_password(creds)\n                creds.pop('auth_token', None)", 'debug logging removes a key from the caller credentials')
m('c07-authorize-evaluates', 'C07', Y, "        if rule not in self.registered_rules:\n            raise PolicyNotRegistered(rule)",
  "        if rule not in self.registered_rules:\n            self.enforce(rule, target, creds)\n            raise PolicyNotRegistered(rule)", 'authorize evaluates before refusing an unregistered name')

# ---- C08 ------------------------------------------------------------------
m('c08-domain-first', 'C08', Y, "        if creds.get('system'):\n            token_scope = 'system'  # nosec\n        elif creds.get('domain_id'):\n            token_scope = 'domain'  # nosec",
  "        if creds.get('domain_id') and creds.get('project_id'):\n            token_scope = 'domain'  # nosec\n        elif creds.get('system'):\n            token_scope = 'system'  # nosec\n        elif creds.get('domain_id'):\n            token_scope = 'domain'  # nosec",
  'domain wins over system when a project id is present as well')
m('c08-skip-when-overridden', 'C08', Y, "                if registered_rule and registered_rule.scope_types:",
  "                if registered_rule and registered_rule.scope_types and rule not in self.file_rules:", 'scope gate skipped for rules overridden in the file')
m('c08-true-on-mismatch', 'C08', Y, "                else:\n                    result = False\n            # If we don't raise an exception we should at least",
  "                else:\n                    result = len(rule.scope_types) > 2\n            # If we don't raise an exception we should at least", 'mismatch with three declared scope types passes when do_raise is off')

# ---- C09 ------------------------------------------------------------------
m('c09-no-sort', 'C09', Y, "        policy_files.sort()\n", "", 'directory files applied in enumeration order')
m('c09-dotfiles', 'C09', Y, "        for policy_file in [p for p in policy_files if not p.startswith('.')]:", "        for policy_file in [p for p in policy_files if not p.startswith('..')]:", 'dot-files are applied')
m('c09-fallback-for-override', 'C09', Y, "        elif location in [cfg.Locations.opt_default,\n                          cfg.Locations.set_default]:",
  "        elif location in [cfg.Locations.opt_default,\n                          cfg.Locations.set_default,\n                          cfg.Locations.set_override]:", 'legacy policy.json fallback also for an overridden option')
m('c09-sort-caseless', 'C09', Y, "        policy_files.sort()\n", "        policy_files.sort(key=str.lower)\n", 'case-insensitive order instead of lexicographic')

# ---- C10 ------------------------------------------------------------------
m('c10-revert-d4', 'C10', Y, "            data = data or ''\n", "", 'revert fix D4 (deleted main file)')
m('c10-cache-ge', 'C10', Y, "        if mtime > cache_info.get('mtime', 0):\n            cache_info['mtime'] = mtime\n            return True\n        return False",
  "        if mtime > cache_info.get('mtime', 0) + 10:\n            cache_info['mtime'] = mtime\n            return True\n        return False", 'directory changes within 10 clock units of the cached mtime are missed')
m('c10-dirs-not-reapplied', 'C10', Y, "            if policy_file_rules_changed:\n                force_reload_policy_dirs = True\n", "", 'directory overrides are not re-applied when the main file changed')
m('c10-keep-file-rules', 'C10', Y, "        if overwrite:\n            self.file_rules = {}\n        parsed_file = parse_file_contents(data)", "        parsed_file = parse_file_contents(data)", 'file_rules kept across reloads (stale deprecated-name overrides)')

# ---- C11 ------------------------------------------------------------------
m('c11-or-when-flag-on', 'C11', Y, "            not self.conf.oslo_policy.enforce_new_defaults\n            and deprecated_rule.check_str != default.check_str",
  "            (not self.conf.oslo_policy.enforce_new_defaults or deprecated_rule.name != default.name)\n            and deprecated_rule.check_str != default.check_str", 'renamed policies are OR-ed with the old default even with enforce_new_defaults')
m('c11-ignore-alias', 'C11', Y, "                str(file_rule.check) != 'rule:%s' % default.name and\n", "", 'alias exception dropped')
m('c11-old-over-new', 'C11', Y, "                str(file_rule.check) != 'rule:%s' % default.name and\n                default.name not in self.file_rules.keys()",
  "                str(file_rule.check) != 'rule:%s' % default.name", 'harmless? new-name override check dropped inside the merge (unreachable because load skips names in rules): negative control')

# ---- C12 ------------------------------------------------------------------
m('c12-register-no-copy', 'C12', Y, "        self.registered_rules[default.name] = copy.deepcopy(default)", "        self.registered_rules[default.name] = default",
  'no copy on registration (alone it is behaviourally invisible: negative control unless something mutates)')
m('c12-merge-in-place', 'C12', Y, "            return OrCheck([default.check, deprecated_rule.check])",
  "            if not isinstance(default.check, OrCheck):\n                default._check = OrCheck([default.check])\n            return default.check.add_check(deprecated_rule.check)", 'merged deprecated check grows in place on every load')
m('c12-nocopy-and-merge', 'C12', Y, "        self.registered_rules[default.name] = copy.deepcopy(default)",
  "        self.registered_rules[default.name] = default\n        if default.deprecated_rule and default.deprecated_rule.check_str != default.check_str:\n            default._check = OrCheck([default.check, default.deprecated_rule.check]) if not getattr(default, '_pv_merged', False) else default.check\n            default._pv_merged = True",
  'registration merges the deprecated check into the caller-owned object')

# ---- C13 ------------------------------------------------------------------
m('c13-revert-d5', 'C13', Y, "        # A NotCheck wraps a single rule so check that as well.\n        if isinstance(check, NotCheck):\n            return self._undefined_check(check.rule)\n", "", 'revert fix D5 (undefined walk)')
m('c13-shared-seen', 'C13', Y, "                if self._cycle_check(rule, seen.copy()):", "                if self._cycle_check(rule, seen):", 'diamonds are reported as cycles')
m('c13-cycle-top-only', 'C13', Y, "            if check.match in self.rules:\n                # There can only be a cycle if the referenced rule is defined.\n                if self._cycle_check(self.rules[check.match], seen):\n                    return True",
  "            if check.match in self.rules and len(seen) < 3:\n                # There can only be a cycle if the referenced rule is defined.\n                if self._cycle_check(self.rules[check.match], seen):\n                    return True", 'cycles longer than three rules are missed')

# ---- C14 ------------------------------------------------------------------
m('c14-revert-d6-lit', 'C14', C, "        except (ValueError, TypeError, SyntaxError, MemoryError,\n                RecursionError):", "        except ValueError:", 'revert fix D6 (literal attempt)')
m('c14-role-nonstring', 'C14', C, "        try:\n            match = self.match % target\n        except KeyError:\n            # While doing RoleCheck if key not\n            # present in Target return false\n            return False",
  "        try:\n            match = self.match % target\n            if target.get('roles') and not match:\n                raise TypeError('empty role')\n        except KeyError:\n            # While doing RoleCheck if key not\n            # present in Target return false\n            return False", 'role check raises for a particular target')
m('c14-generic-missing-key', 'C14', C, "        try:\n            match = self.match % target\n        except KeyError:\n            # While doing GenericCheck if key not\n            # present in Target return false\n            return False",
  "        try:\n            match = self.match % target\n        except KeyError as e:\n            # While doing GenericCheck if key not\n            # present in Target return false\n            if '.' in str(e):\n                raise\n            return False", 'missing dotted target key raises KeyError')

# ---- C15 ------------------------------------------------------------------
m('c15-and-no-parens', 'C15', C, "        return '(%s)' % ' and '.join(str(r) for r in self.rules)",
  "        return ('(%s)' if len(self.rules) != 2 else '%s') % ' and '.join(str(r) for r in self.rules)", 'two-operand and printed without parentheses')
m('c15-true-empty', 'C15', Y, "            if isinstance(value, _checks.TrueCheck):\n                out_rules[key] = ''", "            if isinstance(value, (_checks.TrueCheck, _checks.FalseCheck)):\n                out_rules[key] = ''", 'always-deny rules dumped as empty string (reloads as allow)')
m('c15-not-not', 'C15', C, "        return 'not %s' % self.rule", "        return 'not %s' % (self.rule.rule if isinstance(self.rule, NotCheck) and isinstance(self.rule.rule, NotCheck) else self.rule)", 'triple not printed as single not... double dropped')

# ---- C16 ------------------------------------------------------------------
m('c16-in', 'C16', E, "                return r.text.lstrip('\"').rstrip('\"') == 'True'\n        except Timeout:\n            raise RuntimeError(\"Timeout in REST API call\")\n\n    @staticmethod",
  "                return r.text.lstrip('\"').rstrip('\"').strip() == 'True'\n        except Timeout:\n            raise RuntimeError(\"Timeout in REST API call\")\n\n    @staticmethod", 'http: whitespace around True accepted')
m('c16-status', 'C16', E, "                                  timeout=timeout)\n            ) as r:\n                return r.text.lstrip('\"').rstrip('\"') == 'True'",
  "                                  timeout=timeout)\n            ) as r:\n                return r.text.lstrip('\"').rstrip('\"') == 'True' or r.status_code == 204", 'https: HTTP 204 allows')
m('c16-blank-caller', 'C16', E, "        temp_target = copy.deepcopy(target)\n        for key in target.keys():\n            element = target.get(key)\n            if type(element) is object:\n                temp_target[key] = {}",
  "        temp_target = target\n        for key in target.keys():\n            element = target.get(key)\n            if type(element) is object:\n                temp_target[key] = {}", "opaque values blanked in the caller's own target")
m('c16-https-timeout-false', 'C16', E, "                                  timeout=timeout)\n            ) as r:\n                return r.text.lstrip('\"').rstrip('\"') == 'True'\n        except Timeout:\n            raise RuntimeError(\"Timeout in REST API call\")",
  "                                  timeout=timeout)\n            ) as r:\n                return r.text.lstrip('\"').rstrip('\"') == 'True'\n        except Timeout:\n            return False", 'https: timeout denies silently instead of raising')
m('c16-rule-name', 'C16', E, "            json = {'rule': current_rule,", "            json = {'rule': current_rule or '',", 'harmless for named rules: negative control')

# ---- C17 ------------------------------------------------------------------
m('c17-indent', 'C17', G, "        return textwrap.wrap(' '.join(lines), 70, initial_indent='# ',\n                             subsequent_indent='# ')",
  "        return textwrap.wrap(' '.join(lines), 70, initial_indent='# ',\n                             subsequent_indent='# ', break_long_words=False) if len(lines) < 3 else textwrap.wrap(' '.join(lines), 70, initial_indent='# ', subsequent_indent='')",
  'paragraphs of three or more lines lose the comment prefix on continuation lines')
m('c17-literal-block', 'C17', G, "            formatted_lines.append('# %s' % line.rstrip())", "            formatted_lines.append('# %s' % line.rstrip() if not line.startswith('\\t') else line.rstrip())", 'tab-indented literal lines are emitted uncommented')
m('c17-alias-uncommented', 'C17', G, "            text += ('# \"%(old_name)s\": \"rule:%(name)s\"\\n' %", "            text += ('\"%(old_name)s\": \"rule:%(name)s\"\\n' %", 'alias line emitted un-commented')

# ---- C18 ------------------------------------------------------------------
m('c18-revert-d7', 'C18', G, "                policies.pop(rule_default.deprecated_rule.name, None)\n                alias = 'rule:%s' % rule_default.name\n                if str(_parser.parse_rule(old_rule)) == alias:\n                    # The old name was only an alias of the new policy, in\n                    # whichever spelling (the enforcer compares the parsed\n                    # rule as well); carrying it over would make the policy\n                    # reference itself.\n                    continue\n",
  "                policies.pop(rule_default.deprecated_rule.name, None)\n", 'revert alias part of fix D7')
m('c18-revert-alias-spelling', 'C18', G, "                if str(_parser.parse_rule(old_rule)) == alias:\n", "                if old_rule == alias:\n",
  'revert fix f45217e: only the literal text rule:<new> is recognised as an alias by the upgrade tool')
m('c18-revert-astral', 'C18', G, "    return '{}: {}'.format(_quote_text(name), _quote_text(check_str))\n",
  "    return '{}: {}'.format(jsonutils.dumps(name), jsonutils.dumps(check_str))\n",
  'revert fix dcc0587: characters outside the basic plane are written as surrogate-pair escapes again')
m('c17-revert-astral', 'C17', G, "    return '{}: {}'.format(_quote_text(name), _quote_text(check_str))\n",
  "    return '{}: {}'.format(jsonutils.dumps(name), jsonutils.dumps(check_str))\n",
  'revert fix dcc0587 (sample generator side)')
m('c18-revert-d13', 'C18', G, "        return '[%s]' % ', '.join(_quote_rule(entry) for entry in check_str)\n",
  "        return _quote_text(str(_parser.parse_rule(check_str)))\n",
  'revert fix D13 (d91abb8): a list-of-lists rule is written as the check string it prints as; entries with blanks or parentheses stop being single checks')
m('c18-generator-prefers-default', 'C18', G, "                        if name not in enforcer.file_rules]", "                        if name not in enforcer.file_rules or name.endswith('split1')]", 'generator emits the registered default after a file rule for one name (last wins)')
m('c18-convert-comment-override', 'C18', G, "            if file_rule == default_rule:\n                rule_text = _format_rule_default_yaml(\n                    file_rule, add_deprecated_rules=False)",
  "            if file_rule == default_rule or str(file_rule.check) == '@':\n                rule_text = _format_rule_default_yaml(\n                    file_rule, add_deprecated_rules=False)", 'convert comments out an always-allow override')

# ---- C19 ------------------------------------------------------------------
m('c19-revert-d9', 'C19', S, "        access_data['system'] = access_data['system_scope']\n", "", 'revert system part of fix D9')
m('c19-unsorted', 'C19', S, "    for key, rule in sorted(rules.items()):", "    for key, rule in sorted(rules.items(), key=lambda kv: kv[0].lower()):", 'case-insensitive order of verdict lines')
m('c19-default-name', 'C19', S, "    rules = policy.Rules.load(policy_data, \"default\")", "    rules = policy.Rules.load(policy_data, \"default\" if not is_admin else None)", 'no default-rule fallback when --is_admin')
m('c19-target-project', 'C19', S, "        if access_data.get('project_id'):\n            target_data['project_id'] = access_data['project_id']", "        if access_data.get('project_id') and not is_admin:\n            target_data['project_id'] = access_data['project_id']", 'default target lacks project_id when --is_admin')

# ---- C20 (on top of the known defect) -----------------------------------------
m('c20-clear-in-place', 'C20', Y, "        if overwrite:\n            self.rules = Rules(rules, self.default_rule)\n        else:\n            self.rules.update(rules)",
  "        if overwrite:\n            self.rules.clear()\n            self.rules.update(rules)\n            self.rules.default_rule = self.default_rule\n        else:\n            self.rules.update(rules)", 'published store cleared in place before the reload')
m('c20-shared-check-mutated', 'C20', Y, "                self.rules[default.name] = check\n", "                self.rules[default.name] = check\n                if isinstance(check, _checks.RoleCheck) and check.match == 'z':\n                    check.match = 'zz'\n                    check.match = 'z'\n",
  'a check object shared by old and new stores is transiently mutated')

m('c02-revert-d3', 'C02', P, "    if isinstance(rule, (list, tuple)):\n        return _parse_list_rule(rule)\n\n    # Anything else (null,",
  "    if rule is None or isinstance(rule, (list, tuple)):\n        return _parse_list_rule(rule)\n\n    # Anything else (null,", 'revert fix D3 (null rule value allows)')
# ---- second round (replacements for mutants the repository suite notices) ---------
m('c11-any-rule-ref-is-alias', 'C11', Y, "                str(file_rule.check) != 'rule:%s' % default.name and\n",
  "                not str(file_rule.check).startswith('rule:') and\n", 'any old-name override that is a rule: reference is treated as the alias')
m('c12-registered-copy-accumulates', 'C12', Y, "                self.rules[default.name] = check\n",
  "                self.rules[default.name] = check\n                default._check = check\n", 'the registered copy keeps the merged check: every rebuild ORs the old default in again')
m('c13-undefined-and-only', 'C13', Y, "        rules = getattr(check, 'rules', None)\n        if rules:\n            for rule in rules:\n                if self._undefined_check(rule):\n                    return True",
  "        rules = getattr(check, 'rules', None)\n        if rules and len(rules) < 3:\n            for rule in rules:\n                if self._undefined_check(rule):\n                    return True", 'undefined references inside and/or groups of three or more operands are missed')
m('c13-self-loop', 'C13', Y, "            if check.match in seen:\n                # Cycle found\n                return True",
  "            if check.match in seen and len(seen) > 1:\n                # Cycle found\n                return True", 'a direct self-reference is not recognised as a cycle')
m('c20-file-rules-first', 'C20', Y, "            rules = Rules.load(data, self.default_rule)\n            self.set_rules(rules, overwrite=overwrite, use_conf=True)\n            rules_changed = True\n            self._record_file_rules(data, overwrite)",
  "            rules = Rules.load(data, self.default_rule)\n            self._record_file_rules(data, overwrite)\n            self.set_rules(rules, overwrite=overwrite, use_conf=True)\n            rules_changed = True", 'file_rules published before the rule store (exploratory: may only shift the known windows)')
m('c20-iterate-copy', 'C20', Y, "        for name, check in self.rules.items():\n            if not self.skip_undefined_check and self._undefined_check(check):",
  "        for name, check in list(self.rules.items()):\n            if not self.skip_undefined_check and self._undefined_check(check):", 'IMPROVEMENT (removes the known reload-iteration-race): the check must stay silent')
m('c05-fanout-first-three', 'C05', C, "            for val in test_value:\n                if self._find_in_dict(val, path_segments, match):\n                    return True\n            return False",
  "            for val in test_value[:2]:\n                if self._find_in_dict(val, path_segments, match):\n                    return True\n            return False", 'only the first two list elements are examined')
m('c06-bypass-default', 'C06', C, "                rule=enforcer.rules[self.match],\n                target=target,", "                rule=dict.__getitem__(enforcer.rules, self.match) if self.match.startswith('g') else enforcer.rules[self.match],\n                target=target,",
  "undefined references whose name starts with 'g' never fall back to the default rule")
m('c10-dir-mtime-ignored', 'C10', Y, "            files = [path] + [os.path.join(path, file) for file in\n                              os.listdir(path)]", "            files = [os.path.join(path, file) for file in\n                     os.listdir(path)] or [path]",
  'the directory\'s own mtime is ignored: deleting a file from a policy directory goes unnoticed')


# Mutants that turned out to be semantically equivalent (the property still holds on them): a check that flagged one of
# these would be raising a false alarm, so "not flagged" is the correct outcome.
# ---- lazy set-up raced on first use (strata first-use) ----------------------------------------------------------------
m('c01-lazy-keywords-race', 'C01', P, "        lowered = clean.lower()\n        if lowered in ('and', 'or', 'not'):\n",
  "        lowered = clean.lower()\n        if lowered in _keywords():\n",
  'the keyword table is built lazily, published empty and then filled: a thread tokenizing during the first fill reads and/or/not as checks')
M[-1]['also_edit'] = [(P, "# Used for tokenizing the policy language\n", "_KEYWORDS = None\n\n\ndef _keywords():\n    global _KEYWORDS\n    if _KEYWORDS is None:\n        _KEYWORDS = set()\n        for word in ('and', 'or', 'not'):\n            _KEYWORDS.add(word)\n    return _KEYWORDS\n\n\n# Used for tokenizing the policy language\n")]
m('c02-lazy-keywords-race', 'C02', P, "        lowered = clean.lower()\n        if lowered in ('and', 'or', 'not'):\n",
  "        lowered = clean.lower()\n        if lowered in _keywords():\n",
  'same lazily built keyword table, seen from C02: a dangling operator read as a check during the first fill')
M[-1]['also_edit'] = list(M[-2]['also_edit'])

EQUIVALENT = {
    'c01-mix-nested': 'operand order inside an n-ary AND does not change a decision',
    'c01-not-binds-loose': "the extra reducer can never fire: 'not check' is reduced greedily before an 'and' arrives",
    'c03-default-not-in-self': 'the recursive lookup raises KeyError one level down; the decision is still deny',
    'c08-true-on-mismatch': 'a scope mismatch is impossible when all three scope types are declared',
    'c11-old-over-new': 'the dropped test is unreachable: load_rules never merges a name that is already in the rule store',

    'c12-register-no-copy': 'registering without a copy is invisible unless something mutates the object',
    'c20-iterate-copy': 'an improvement: removes one known finding; exit must stay 0',
    'c06-bypass-default': 'dict.__getitem__ on a dict subclass still honours __missing__, so the default-rule fallback is not bypassed',
    'c20-file-rules-first': 'only shifts the windows of the already known mechanisms (no new observable class): masked by the known finding, as DESIGN 4b says such changes can be',
}
for _m in M:
    if _m['id'] in EQUIVALENT:
        _m['equivalent'] = EQUIVALENT[_m['id']]
