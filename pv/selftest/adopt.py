"""Confirm a sub-agent's seeded change independently and keep it under /verif/seeded.

  /venv/bin/python -m pv.selftest.adopt <PROP> <srcdir> <worktree> <name> ["what it needs to manifest"]

Steps (all in the scratch worktree, never in /repo): clean tree -> apply patch -> repository suite must pass ->
demo must FAIL -> revert -> demo must pass.  Only then is the change copied to /verif/seeded/<name>/ with meta.json."""
import json
import os
import shutil
import subprocess
import sys

HERE = os.path.dirname(os.path.dirname(os.path.dirname(os.path.abspath(__file__))))


def sh(cmd, cwd, timeout=900):
    p = subprocess.run(cmd, cwd=cwd, shell=True, capture_output=True, text=True, timeout=timeout,
                       env=dict(os.environ, PYTHONDONTWRITEBYTECODE='1'))
    return p.returncode, (p.stdout + p.stderr)


def demo_fails(wt, demo):
    rc, out = sh('/venv/bin/python %s' % demo, wt, 300)
    return (rc != 0 or 'FAIL' in out), rc, out[-300:]


def main(argv):
    prop, src, wt, name = argv[:4]
    needs = argv[4] if len(argv) > 4 else ''
    patch = os.path.join(src, 'patch.diff')
    demo = os.path.join(src, 'demo.py')
    ran = {}
    sh('git checkout -- . && git clean -fdq', wt)
    rc, out = sh('git apply %s' % patch, wt)
    if rc != 0:
        print('REJECT: patch does not apply:', out[-300:])
        return 1
    try:
        rc, out = sh('/venv/bin/python -c "import oslo_policy,sys; print(oslo_policy.__file__)"', wt)
        if not out.strip().startswith(wt):
            print('REJECT: worktree is not what gets imported:', out)
            return 1
        rc, out = sh('/venv/bin/python -m pytest -q -p no:cacheprovider --timeout=900 --deselect '
                     'oslo_policy/tests/test_cache_handler.py::CacheHandlerTest::test_reloading_cache_with_permission_denied '
                     'oslo_policy/tests 2>&1 | tail -1', wt)
        ran['suite_with_change'] = out.strip()
        if ' failed' in out or 'error' in out.lower() or 'passed' not in out:
            print('REJECT: suite notices the change:', out)
            return 1
        failed, rc, tail = demo_fails(wt, demo)
        ran['demo_with_change'] = 'exit %s: %s' % (rc, tail.strip()[-160:])
        if not failed:
            print('REJECT: demo does not fail with the change:', tail)
            return 1
    finally:
        sh('git checkout -- . && git clean -fdq', wt)
    failed, rc, tail = demo_fails(wt, demo)
    ran['demo_without_change'] = 'exit %s: %s' % (rc, tail.strip()[-160:])
    if failed:
        print('REJECT: demo fails on the unchanged tree too:', tail)
        return 1
    dst = os.path.join(HERE, 'seeded', name)
    os.makedirs(dst, exist_ok=True)
    shutil.copy(patch, os.path.join(dst, 'patch.diff'))
    shutil.copy(demo, os.path.join(dst, 'demo.py'))
    if os.path.exists(os.path.join(src, 'notes.md')):
        shutil.copy(os.path.join(src, 'notes.md'), os.path.join(dst, 'notes.md'))
    meta = {'property': prop, 'needs': needs, 'origin': 'independent sub-agent given only the property text and a scratch worktree',
            'confirmed_in_scratch_worktree': ran, 'caught_by': None}
    with open(os.path.join(dst, 'meta.json'), 'w') as f:
        json.dump(meta, f, indent=1)
    print('ADOPTED', name, ran)
    return 0


if __name__ == '__main__':
    sys.exit(main(sys.argv[1:]))
