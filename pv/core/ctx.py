"""Per-shard observation context: counters, distinct-case digests, samples,
violations, three-valued verdict pieces.  Everything in it is measured by the
run; nothing is a constant."""
import collections
import hashlib
import json
import random
import time

MAX_SAMPLES_PER_STRATUM = 3
MAX_WITNESSES_PER_KEY = 5
MAX_OBSERVED = 5000


def digest(obj):
    if not isinstance(obj, (str, bytes)):
        obj = json.dumps(obj, sort_keys=True, default=repr)
    if isinstance(obj, str):
        obj = obj.encode('utf-8', 'surrogatepass')
    return int.from_bytes(hashlib.blake2b(obj, digest_size=8).digest(), 'big')


def jsonable(obj):
    """Best-effort conversion of a case to something json.dumps accepts."""
    try:
        json.dumps(obj)
        return obj
    except (TypeError, ValueError):
        pass
    if isinstance(obj, dict):
        return {str(k): jsonable(v) for k, v in obj.items()}
    if isinstance(obj, (list, tuple, set, frozenset)):
        return [jsonable(v) for v in obj]
    return repr(obj)


class Ctx:
    def __init__(self, prop, tier, seed, shard=0, nshards=1, wall=60.0,
                 replay=False):
        self.prop = prop
        self.tier = tier
        self.seed = seed
        self.shard = shard
        self.nshards = nshards
        self.replay = replay
        self.rnd = random.Random('%s/%s/%d/%d' % (prop, tier, seed, shard))
        self.t0 = time.time()
        self.wall = wall
        self.counters = collections.Counter()
        self.digests = set()
        self.evaluations = 0
        self.samples = collections.OrderedDict()
        self.violations = collections.OrderedDict()   # key -> [count, [witness...]]
        self.observed = collections.defaultdict(set)
        self.strata = {}
        self.inconclusive_reasons = []
        self.cut_short = False
        self.soft = None

    # -- budget ----------------------------------------------------------
    def expired(self):
        """True once the shard's wall budget is used up.  Stopping early is
        recorded (strata lose their `exhaustive` flag); it is never a verdict."""
        limit = self.wall if self.soft is None else min(self.wall, self.soft)
        if time.time() - self.t0 > limit:
            self.cut_short = True
            return True
        return False

    def reserve(self, fraction):
        """Until the next reserve()/release(): `expired()` fires once `fraction` of the wall budget is used, so that on a
        loaded machine the strata that come later keep their share instead of being starved by the first one."""
        self.soft = self.wall * fraction

    def release(self):
        self.soft = None

    def mine(self, index):
        """Deterministic partition of an enumerated space over the shards."""
        return index % self.nshards == self.shard

    def sub_rnd(self, *parts):
        return random.Random('%s/%d/%s' % (self.prop, self.seed,
                                          '/'.join(map(str, parts))))

    # -- what was observed -------------------------------------------------
    def count(self, name, n=1):
        self.counters[name] += n

    def case(self, key, nontrivial=True, stratum=None):
        """One explored case.  `key` identifies it (for distinct counting)."""
        self.evaluations += 1
        if stratum:
            self.counters['cases.' + stratum] += 1
        if nontrivial:
            self.digests.add(digest(key))
        else:
            self.counters['trivial_cases'] += 1

    def sample(self, obj, stratum='all'):
        lst = self.samples.setdefault(stratum, [])
        if len(lst) < MAX_SAMPLES_PER_STRATUM:
            lst.append(jsonable(obj))

    def observe(self, name, value):
        s = self.observed[name]
        if len(s) < MAX_OBSERVED:
            s.add(value if isinstance(value, (str, int, bool, tuple)) else repr(value))

    def stratum(self, name, size=None, exhaustive=None):
        d = self.strata.setdefault(name, {})
        if size is not None:
            d['size'] = d.get('size', 0) + size
        if exhaustive is not None:
            d['exhaustive'] = exhaustive

    def unconstrained(self, tag):
        self.counters['unconstrained.' + tag] += 1

    # -- verdict pieces ----------------------------------------------------
    def violation(self, key, case, detail):
        """A refuting observation.  `key` is the mechanism key computed by the
        property's classifier from what was observed (never from random
        values); `case` must be replayable by the property's `replay`."""
        ent = self.violations.setdefault(key, [0, []])
        ent[0] += 1
        if len(ent[1]) < MAX_WITNESSES_PER_KEY:
            ent[1].append({'case': jsonable(case), 'detail': jsonable(detail), 'where': {'shard': self.shard, 'nshards': self.nshards}})
        else:
            # keep the smallest witnesses
            size = len(json.dumps(jsonable(case), default=repr))
            worst = max(range(len(ent[1])), key=lambda i: len(json.dumps(ent[1][i]['case'], default=repr)))
            if size < len(json.dumps(ent[1][worst]['case'], default=repr)):
                ent[1][worst] = {'case': jsonable(case), 'detail': jsonable(detail), 'where': {'shard': self.shard, 'nshards': self.nshards}}

    def inconclusive(self, reason):
        if reason not in self.inconclusive_reasons:
            self.inconclusive_reasons.append(reason)

    # -- (de)serialisation between worker and parent -------------------------
    def export(self):
        return {
            'evaluations': self.evaluations,
            'digests': self.digests,
            'counters': dict(self.counters),
            'samples': dict(self.samples),
            'violations': dict(self.violations),
            'observed': {k: set(v) for k, v in self.observed.items()},
            'strata': self.strata,
            'inconclusive': self.inconclusive_reasons,
            'cut_short': self.cut_short,
            'wall': time.time() - self.t0,
        }


def merge(results):
    out = {'evaluations': 0, 'digests': set(), 'counters': collections.Counter(),
           'samples': collections.OrderedDict(), 'violations': collections.OrderedDict(),
           'observed': collections.defaultdict(set), 'strata': {},
           'inconclusive': [], 'cut_short': False, 'wall': 0.0}
    for r in results:
        out['evaluations'] += r['evaluations']
        out['digests'] |= r['digests']
        out['counters'].update(r['counters'])
        for k, v in r['samples'].items():
            lst = out['samples'].setdefault(k, [])
            for s in v:
                if len(lst) < MAX_SAMPLES_PER_STRATUM:
                    lst.append(s)
        for k, (n, ws) in r['violations'].items():
            ent = out['violations'].setdefault(k, [0, []])
            ent[0] += n
            ent[1].extend(ws)
            ent[1].sort(key=lambda w: len(json.dumps(w['case'], default=repr)))
            del ent[1][MAX_WITNESSES_PER_KEY:]
        for k, v in r['observed'].items():
            out['observed'][k] |= v
        for k, d in r['strata'].items():
            o = out['strata'].setdefault(k, {})
            if 'size' in d:
                o['size'] = o.get('size', 0) + d['size']
            if 'exhaustive' in d:
                o['exhaustive'] = o.get('exhaustive', True) and d['exhaustive']
        for reason in r['inconclusive']:
            if reason not in out['inconclusive']:
                out['inconclusive'].append(reason)
        out['cut_short'] = out['cut_short'] or r['cut_short']
        out['wall'] = max(out['wall'], r['wall'])
    return out
