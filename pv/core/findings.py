"""KNOWN_FINDINGS.txt reader.  The file is committed and never written at run
time.  Lines:

  finding: property=C20 key=partial-rebuild-view  <what fails>
  fixed:   property=C10 <commit>  <what failed>

Only `finding:` lines suppress a VIOLATION, and only for the exact
(property, mechanism key) pair; `fixed:` lines suppress nothing.
"""
import os
import re

_LINE = re.compile(r'^finding:\s+property=(\S+)\s+key=(\S+)\s*(.*)$')


def load(path):
    out = {}
    if not os.path.exists(path):
        return out
    with open(path) as f:
        for line in f:
            m = _LINE.match(line.strip())
            if m:
                out[(m.group(1), m.group(2))] = m.group(3)
    return out
