"""Import guard: make sure the code under observation is /repo's working tree.

`VERIF_REPO` (default /repo) is put first on sys.path; `oslo_policy` must then
resolve inside it, otherwise the run is inconclusive (exit 2) - a check that
silently observed some other copy of the library would be worthless.
"""
import logging
import os
import sys
import warnings

VERIF_DIR = os.path.dirname(os.path.dirname(os.path.dirname(os.path.abspath(__file__))))
REPO = os.path.realpath(os.environ.get('VERIF_REPO', '/repo'))
GUARD = 'OSLO_POLICY_VERIF'

_ready = False


def setup():
    """Prepare the interpreter and import the library under observation."""
    global _ready
    if _ready:
        return sys.modules['oslo_policy']
    os.environ[GUARD] = '1'
    deps = os.path.join(VERIF_DIR, '.deps')
    if os.path.isdir(deps) and deps not in sys.path:
        sys.path.append(deps)
    if REPO in sys.path:
        sys.path.remove(REPO)
    sys.path.insert(0, REPO)
    # The library logs every malformed rule with a traceback and warns on every
    # JSON file; none of that is observed by a monitor, so keep it quiet.
    logging.disable(logging.CRITICAL)
    warnings.simplefilter('ignore')
    # locks the library creates become scheduling points of the deterministic scheduler (pv/mon/sched.py); must happen
    # before the library is imported
    from pv.mon import sched
    if not os.environ.get("PV_NO_LOCK_PATCH"):
        sched.patch_locks()
    import oslo_policy
    where = os.path.realpath(os.path.dirname(oslo_policy.__file__))
    if not where.startswith(REPO + os.sep):
        print('INCONCLUSIVE reason=oslo_policy imported from %s, not from %s'
              % (where, REPO))
        sys.exit(2)
    sys.setrecursionlimit(3000)
    _ready = True
    return oslo_policy


def pkg_dir():
    import oslo_policy
    return os.path.realpath(os.path.dirname(oslo_policy.__file__))


def fresh_conf(**overrides):
    """An isolated ConfigOpts: nothing from the host's config dirs leaks in."""
    from oslo_config import cfg
    from oslo_policy import opts
    conf = cfg.ConfigOpts()
    conf([], default_config_dirs=[], default_config_files=[])
    opts._register(conf)
    for k, v in overrides.items():
        conf.set_override(k, v, group='oslo_policy')
    return conf


class debug_logging:
    """Context manager: switch the library's DEBUG logging on (output dropped)."""

    def __enter__(self):
        self.lg = logging.getLogger('oslo_policy')
        self.old = (self.lg.level, self.lg.propagate, list(self.lg.handlers))
        logging.disable(logging.NOTSET)
        self.lg.setLevel(logging.DEBUG)
        self.lg.propagate = False
        self.h = logging.NullHandler()
        self.lg.addHandler(self.h)
        return self

    def __exit__(self, *a):
        self.lg.removeHandler(self.h)
        self.lg.setLevel(self.old[0])
        self.lg.propagate = self.old[1]
        logging.disable(logging.CRITICAL)
        return False


def register_kind(name, cls):
    """Register a private check kind through the library's public API."""
    from oslo_policy import policy
    policy.register(name, cls)


def unregister_kind(name):
    """There is no public way to unregister a check kind; the registry dict is internal - if it has moved, the private
    kind simply stays registered for the rest of this (short-lived) worker process."""
    try:
        from oslo_policy import _checks
        _checks.registered_checks.pop(name, None)
    except Exception:
        pass


def printed(rule_text):
    """Printed form of a rule, obtained through the public RuleDefault class."""
    from oslo_policy import policy
    return str(policy.RuleDefault('pv:printed', rule_text).check)
