"""Round 4 bookkeeping: write caught_by / first_run / strengthening into seeded/*-g, *-h meta.json from selftest_seeded.json."""
import glob
import json
import os

res = {r['id']: r for r in json.load(open('/verif/selftest_seeded.json'))}
S = {
 'C01-i': 'C01 stratum AK: every sentence up to 7 (thorough 9) tokens with every leaf position taken by a leaf, @ or ! (constants inside expressions)',
 'C03-i': 'C03 stratum `policy_dirs`: two / three configured policy directories (some missing or empty), names defined only in the first / a middle / the last one, permissive defaults, short histories',
 'C04-i': 'C04 strata `nested-target` / `nested-target-sequence`: targets with nested mappings whose flattened dotted path equals the placeholder key (only the exact key counts)',
 'C06-i': 'C06 stratum `overlap-reinstall` (identical rules installed again by another thread: set_rules, merge, forced reload, re-saved file) and `reinstall-kept` (a kept Rules object installed again)',
 'C06-j': 'C06 stratum `check-object`: parsed trees passed to enforce(); inlining must not change decisions nor what nested checks are told; a private kind that decides by the name it is told',
 'C07-j': 'C07 stratum `conventions`: 22 calling conventions (do_raise omitted / keyword / positional / falsy / truthy values, exc by keyword) x enforce / authorize',
 'C08-j': 'C08 stratum `extras`: the other attributes a real RequestContext carries (project_domain_id, user_domain_id, names, service_*) in five representations',
 'C09-j': 'C09 stratum I: zero to four dot-files and several sub-directories per directory, adjacent in sort order, each defining every name with its own role',
 'C12-i': 'C12 strata H1 / F: a momentarily unparseable policy file (nothing judged meanwhile) followed by a repair; implicit, explicit and forced loads must then agree with a fresh enforcer',
 'C12-j': 'C12 stratum H1: removal of the main file followed by a forced load with NO load in between (cases say after which steps to compare: the per-step comparison used to reset the store)',
 'C13-i': 'C13 stratum D: registered defaults with deprecated predecessors (flag on/off, overrides, alias) - the graph analysis runs on the effective rules of the override table',
 'C14-i': 'C14 stratum O: rules handed to enforce() as parsed check objects with roots of every class, registered defaults present, unhashable user-defined check classes',
 'C15-j': 'C15: the transport stub answers by scheme AND path (http://../yes, https://../sec), so an https leaf printed as http changes a decision',
 'C16-j': 'C16 stratum K: URL placeholders over keys that target and credentials (dict / RequestContext) share with different values',
 'C18-i': 'C18 stratum `long`: rules and names of 80-450 characters with blanks at many columns, equal to / different from the default (found D13 on the unchanged tree)',
 'C20-i': 'C20 classifier: names of a store read mid-reload must form a set the documented rebuild passes through, else `store-state-outside-rebuild-sequence` (an EMPTY store although a main file exists)',
 'C20-j': 'C20 scenario `dir_file_added` and targeted P4 family (every boundary of the decision x every boundary of the reload at which shared state has just changed)',
 'C20-k': 'C20 plan family P6 (added for C20-h) - until then the change had passed for a behaviour-preserving refactoring (benign/8)',
}
n = 0
for meta in sorted(glob.glob('/verif/seeded/*/meta.json')):
    name = os.path.basename(os.path.dirname(meta))
    if name[-1] not in "ijkl":
        continue
    d = json.load(open(meta))
    r = res.get('seeded-' + name)
    if not r:
        print('no result for', name)
        continue
    c = r['checks'][r['prop']]
    d['round'] = d.get('round') or 5
    d['caught_by'] = {'check': './check %s quick' % r['prop'], 'exit': c['rc'], 'mechanism_keys': c['keys'], 'seconds': c['secs'],
                      'replay_files_reproduce_on_changed_tree_and_hold_on_unchanged': c.get('replays')}
    d['what_was_run'] = ['git apply patch.diff in a scratch worktree; repository suite (345 passed, root-only test deselected); demo.py fails; git checkout; demo.py passes',
                         'pv.selftest.run --seeded: patch applied to a scratch copy of /repo, suite re-run, ./check %s quick with VERIF_REPO=<copy> -> exit %s; every replay file re-executed against the copy (must reproduce) and against /repo (must hold)' % (r['prop'], c['rc'])]
    if name in S:
        d['first_run'] = 'MISSED by the check as it stood when the change arrived'
        d['strengthening'] = S[name]
    else:
        d['first_run'] = 'caught by the check as it stood when the change arrived'
        d.pop('strengthening', None)
    json.dump(d, open(meta, 'w'), indent=1)
    n += 1
print('updated', n)
