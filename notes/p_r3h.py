p = '/verif/pv/props/c06.py'
s = open(p).read()
s = s.replace('''def check_redefinition(ctx, case):''', '''def check_tool(ctx, case):
    """The same alias semantics inside the console checker (oslopolicy-checker evaluates the check trees itself, with its
    own stand-in enforcer): rule:NAME decides as NAME, an undefined reference as the file's `default` rule (else deny)."""
    import contextlib
    import io
    import json
    from oslo_policy import shell
    from pv.gen import files
    if case['default_mode'] not in ('none', 'option-default'):
        return
    rules = {k: fromjson(v) for k, v in case['rules'].items()}
    default = case['default']
    texts = {k: text_of(v) for k, v in rules.items()}
    if any('pvrec3:' in t for t in texts.values()):
        # the tool calls the top-level check with current_rule=...; a three-argument custom class cannot take it. That is
        # the tool's calling convention, not alias semantics: outside this property.
        ctx.count('tool_cases_skipped_three_arg_kind')
        return
    tree = files.Tree(dirs=())
    try:
        tree.write('p.json', texts, 'json')
        vr = ctx.sub_rnd('tool', repr(sorted(texts.items())))
        for roles in vr.sample(SUBSETS, 3):
            tree.write_text('a.json', json.dumps({'token': {'roles': [{'name': r} for r in roles], 'user': {'id': 'u'}}}))
            for nm in list(rules) + ['pv-unknown-policy']:
                stats = {}
                want = ev(rules[nm] if nm in rules else ('ref', nm), rules, default, roles, stats)
                out = io.StringIO()
                try:
                    with contextlib.redirect_stdout(out):
                        shell.tool(tree.path('p.json'), tree.path('a.json'), nm)
                    got = out.getvalue().strip()
                except Exception as e:
                    got = 'EXC:' + type(e).__name__
                ctx.count('checker_tool_decisions')
                if stats.get('undefined'):
                    ctx.count('checker_tool_undefined_reference_decisions')
                if got != ('passed: %s' if want else 'failed: %s') % nm:
                    ctx.violation('checker-tool-alias-not-transparent' if not stats.get('undefined') else
                                  'checker-tool-undefined-reference-not-like-unknown-policy', dict(case, tool=True),
                                  {'rules': texts, 'default': default, 'checked': nm, 'roles': roles, 'expected_pass': want, 'printed': got})
                    return
        ctx.case(['tool', texts], nontrivial=any(expr.refs(a) for a in rules.values()), stratum='checker-tool')
    finally:
        tree.cleanup()


def check_redefinition(ctx, case):''')
s = s.replace('''            if i % 300 == 0:
                ctx.sample({'rules':''', '''            if i % 4 == 1:
                check_tool(ctx, case)
            if i % 300 == 0:
                ctx.sample({'rules':''')
s = s.replace('''        if case.get('redefinition'):
            return check_redefinition(ctx, case)''', '''        if case.get('redefinition'):
            return check_redefinition(ctx, case)
        if case.get('tool'):
            return check_tool(ctx, case)''')
s = s.replace("'unknown_name_direct_decisions': 1000}", "'unknown_name_direct_decisions': 1000, 'checker_tool_decisions': 500,\n       'checker_tool_undefined_reference_decisions': 50}")
s = s.replace("Non-trivial = the '\n", "Stratum `checker-tool`: the same rule sets written to a file and decided by the console checker (its own stand-in enforcer), incl. an unknown policy name. Non-trivial = the '\n")
open(p, 'w').write(s)
print('r3h ok')
