#!/bin/sh
# round 7: adopt whatever the sub-agents have finished (a -> g, b -> h); skips what is adopted or listed in notes/round7_rejected.txt
cd /verif
for i in ${PROPS:-01 02 03 04 05 06 07 08 09 10 11 12 13 14 15 16 17 18 19 20}; do
  prop=C$i
  for pair in a:o b:p; do
    src=${pair%%:*}; tag=${pair##*:}
    d=/tmp/seed-out7/$prop/$src
    [ -f $d/patch.diff ] && [ -f $d/demo.py ] && [ -f $d/notes.md ] || continue
    [ -d /verif/seeded/$prop-$tag ] && continue
    grep -q "^$prop-$tag " notes/round7_rejected.txt 2>/dev/null && continue
    needs=$(grep -m1 -i '^needs:' $d/notes.md | sed 's/^[Nn]eeds: *//' | tr ' ' '-' | cut -c1-150)
    /venv/bin/python -m pv.selftest.adopt $prop $d /tmp/wt7-$prop $prop-$tag "$needs" 2>&1 | grep -v conda | tail -1 | cut -c1-200
  done
done
