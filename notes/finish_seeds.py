import glob
import json
import os

res = {r['id']: r for r in json.load(open('/verif/selftest_seeded.json'))}
S = {
 'C12-a': 'C12 default shapes widened (top-level or / and / not for the new and deprecated defaults)',
 'C03-a': 'C03 stratum `mutation` added (table re-checked after the rule set of a living enforcer changes)',
 'C04-b': 'C04 stratum `sequence` added (one credentials object whose roles list is mutated in place between calls)',
 'C19-a': 'C19 target files now put nested mappings before/between/after plain keys',
 'C18-b': 'C18 list-of-lists generator now produces empty inner lists and bare-string entries',
 'C17-a': 'C17 description alphabet now contains bare CR, NEL, LS, PS',
 'C20-a': 'C20 scenario deprecated_merge_flag_off and plan family P5 added',
 'C20-b': 'C20 scenario undefined_name_default added',
 'C01-c': 'C01: every seventh sentence is parsed right after a malformed rule in the same thread (parser state must not leak)',
 'C01-d': 'C01 stratum D added: chains of up to 40 `not`, alternating and/or/not towers of depth 2-25',
 'C03-c': 'C03: rules installed as Rules objects that carry a default_rule of their own',
 'C03-d': 'C03 stratum `registered` added: registered defaults through histories of policy.d edits / deletions / forced reloads, with and without a main file',
 'C05-d': 'C05 credential string values with backslash, tab, both quote kinds, NBSP, newline, DEL',
 'C06-c': 'C06 stratum `redefinition` added: rules redefined under the living enforcer (merge, update, item assignment, overwrite)',
 'C06-d': 'C06 third recording check kind whose fourth parameter is not called current_rule',
 'C07-d': 'C07: 8 % of the triples run against a completely empty rule set',
 'C09-d': 'C09: registered defaults declare scope types in half of the layerings; every decision repeated with a wrongly scoped token',
 'C11-c': 'C11 phase 2: operator files rewritten (overrides added/removed/moved, main file deleted) and the same enforcer re-checked',
 'C11-d': 'C11: the two warning-suppression knobs of the enforcer varied',
 'C12-c': 'C12 worlds with a policy directory (edited too) and without / with deleted main file',
 'C04-c': 'C04 credentials also passed as RequestContext and as its policy-values mapping',
 'C08-c': 'C08 four blocks flip enforce_scope on a living enforcer and re-run the table',
 'C08-d': 'C08 fourth credential representation: policy-values mapping (system_scope: None) with the `system` spelling added',
 'C13-c': 'C13 graphs contain a rule named like the default rule in 30 % of the cases',
 'C13-d': 'C13 stratum H: validate, register further defaults late, load, validate again',
 'C14-c': 'C14 stratum N: rule texts that are not sentences (lone quoted token ...), alone and referenced',
 'C14-d': 'C14 stratum T: one target mapping kept by the caller and edited between calls vs a fresh equal mapping on a second enforcer',
 'C15-d': 'C15 rule sets are changed after the first dump (update / item assignment / merge through an enforcer / deletion) and dumped again',
 'C16-d': 'C16 remote_content_type changed on the living enforcer before a second request',
 'C17-c': 'C17 defaults spread over 1-4 namespaces, some registering nothing',
 'C17-d': 'C17 sample regenerated over an existing longer file',
 'C18-c': 'C18 file rules that are near misses of the default (one top-level operand dropped or added); "" / "@" / [] overrides',
 'C19-d': 'C19 policy files with rules in the legacy list-of-lists spelling',
 'C20-d': 'C20 scenario default_overridden_in_dir added (default rule overridden in a policy directory, undefined name probed)',
 'C02-c': 'C02: after each list rule the TEXT that spells its printed form is loaded and judged as text (first catch had been accidental)',
 'C02-e': 'C02 file-backed enforcers register a permissive default for the same name in every second case (a malformed override must not fall back to it); corruptions also travel through policy files',
 'C03-e': 'C03 mutations clear-then-set_rules / drop-default-then-set_rules: a default rule dropped from a living enforcer must stay dropped',
 'C03-f': 'C03 rule bodies include null-valued entries (defined, deny): 216 rule sets',
 'C07-f': 'C07 extra keyword arguments named like plausible internals (name, message, code, reason, policy, context, check, key, value, msg, error, cls)',
 'C08-e': 'C08 a third of the policies are registered as DocumentedRuleDefault',
 'C08-f': 'C08 a third of the overridden policies are registered as renamed and overridden under their deprecated old name',
 'C09-e': 'C09 one policy.d file is re-saved (same content, newer mtime) and the living enforcer re-checked',
 'C09-f': 'C09 file-selection table: explicit argument also takes the three option-related names (560 rows)',
 'C11-e': 'C11 the deprecated old name may itself still be registered; its override may repeat that registration default',
 'C11-f': 'C11 old-name override present in both layers with different values (policy.d wins)',
 'C13-e': 'C13 validator stratum: names defined only by a registered default (not in the file)',
 'C13-f': 'C13 validator fault unparseable-nontext (list / number / boolean / mapping)',
 'C16-e': 'C16 opaque objects below the top level (only the target-left-unmodified clause is judged)',
 'C16-f': 'C16 secret-looking target keys with the library debug logging on',
 'C18-e': 'C18 namespaces hand their defaults over as one-shot iterables (itertools.chain, generator)',
 'C18-f': 'C18 generator / list-redundant run on a living enforcer after the files were rewritten',
 'C01-e': 'C01 stratum A also run with only one or two distinct leaves repeated (`a or a and b`)',
 'C01-f': 'C01 third leaf family `kw`: attribute names that begin with the letters of a keyword (org1, android2, notify3)',
 'C04-e': 'C04 stratum `overlap`: two evaluations of one role:%(k)s check overlap, every single pre-emption (deterministic scheduler)',
 'C04-f': 'C04 stratum `list-form`: list-of-lists rules whose role names contain spaces / parentheses',
 'C05-e': 'C05 stratum `overlap`: two evaluations of one attribute check with different targets overlap, every single pre-emption',
 'C05-f': 'C05 stratum `context-sequence`: a RequestContext whose attributes are rebound / which is copied between calls',
 'C06-e': 'C06 monitor (iii): an unknown policy name enforced directly decides like an undefined reference (all default modes)',
 'C06-f': 'C06 stratum `checker-tool`: the same rule sets decided by oslopolicy-checker (its own stand-in enforcer)',
 'C12-f': 'C12 a registered default references a `helper` rule that only the files define and that the histories edit',
 'C14-e': 'C14 stratum D: a referenced rule removed from the living store (del / pop / same check trees under an enforcer that lacks it)',
 'C14-f': 'C14 stratum F: a policy file overrides a registered policy with a list-of-lists / non-text value',
 'C15-f': 'C15 leaves whose kind is a letter-case variant of a registered kind (Role:, RULE:, Http:), text and list form',
 'C17-e': 'C17 check strings and policy names that push the rule line past 80 columns',
 'C17-f': 'C17 a default registered under the deprecated old name of a renamed default, listed after it',
 'C19-f': 'C19 target files that flatten to nothing ({}, nested empty mappings)',
}
n = 0
for meta in sorted(glob.glob('/verif/seeded/*/meta.json')):
    name = os.path.basename(os.path.dirname(meta))
    d = json.load(open(meta))
    r = res.get('seeded-' + name)
    if not r:
        continue
    c = r['checks'][r['prop']]
    d['round'] = 3 if name[-1] in 'ef' else 2 if name[-1] in 'cd' else 1
    d['caught_by'] = {'check': './check %s quick' % r['prop'], 'exit': c['rc'], 'mechanism_keys': c['keys'], 'seconds': c['secs']}
    d['what_was_run'] = ['git apply patch.diff in a scratch worktree; repository suite (345 passed, root-only test deselected); demo.py fails; git checkout; demo.py passes',
                         'pv.selftest.run --seeded: patch applied to a scratch copy of /repo, suite re-run, ./check %s quick with VERIF_REPO=<copy> -> exit %s' % (r['prop'], c['rc'])]
    if name in S:
        d['first_run'] = 'MISSED by the check as first built'
        d['strengthening'] = S[name]
    else:
        d['first_run'] = 'caught by the check as first built'
        d.pop('strengthening', None)
    json.dump(d, open(meta, 'w'), indent=1)
    n += 1
print('updated', n)
