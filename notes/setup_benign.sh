#!/bin/sh
mkdir -p /tmp/benign
cd /repo
for i in 1 2 3 4 5 6 7 8; do git worktree add -q --detach /tmp/wtb-$i HEAD; done
cat /tmp/seed-out/C*.prop.txt | grep -v "^WHY THE EXISTING\|^CODE ANCHORS" > /tmp/benign/PROPERTIES.txt
cat > /tmp/benign/INSTRUCTIONS.txt <<'EOF'
You are helping test a verification harness for the Python library openstack/oslo.policy (an RBAC policy engine). The harness checks twenty semantic properties of the library (listed in /tmp/benign/PROPERTIES.txt - read them). Your job is the OPPOSITE of bug seeding: make a substantial but BEHAVIOUR-PRESERVING change to the library - a refactoring or internal redesign on the theme you were assigned - such that ALL twenty properties still hold and the library's own unit-test suite still passes. The harness must NOT raise an alarm on your tree; we want to find out whether it wrongly depends on internal details.

Work ONLY inside your git worktree /tmp/wtb-<N> (the package is /tmp/wtb-<N>/oslo_policy) and your output directory /tmp/benign/<N>/. Do not touch /repo, /verif or anything else. NEVER use `git stash` (shared between worktrees); use `git diff > file`, `git checkout -- .`, `git apply file`. /root/.condarc is corrupt in this sandbox, so every shell command prints a long conda traceback first - ignore it (pipe output through `tail`), and never try to repair that file. There is no network; do not install anything.

Requirements:
1. The change must be real and non-trivial (rename or restructure private functions/attributes, change internal data structures or algorithms, move code, change the order of internal steps where that is observably irrelevant, rewrite a routine in a different style), touching at least ~40 lines. Public API (documented names in oslo_policy.policy, the console tools' behaviour and output formats, option names) and all observable behaviour described by the properties must stay exactly the same. Private helpers that the unit tests call directly may keep their names if the tests need them; otherwise feel free to rename/remove private things.
2. The existing test-suite must pass: `cd /tmp/wtb-<N> && /venv/bin/python -m pytest -q -p no:cacheprovider oslo_policy/tests 2>&1 | tail -3` must show 345 passed; exactly one test, test_reloading_cache_with_permission_denied, fails already on the unchanged tree (sandbox runs as root) - ignore that one. When run from that directory `import oslo_policy` resolves to the worktree (verify once).
3. Be careful to really preserve behaviour, including corner cases named in the properties (fail-closed parsing, default-rule fallback, scope gate, reload semantics after file edits/deletions, deprecated-rule merging table, output formats of the tools). If in doubt, keep the corner case as it is. Do NOT "fix" or change any behaviour, even behaviour you consider a bug.
4. Deliverables in /tmp/benign/<N>/: patch.diff (output of `git diff`), notes.md (what was restructured, which internal names/structures changed, why behaviour is preserved, test result line). Leave the worktree with your change applied AND saved in patch.diff.
Keep your final answer to a few lines.
EOF
git worktree list | wc -l
