import re

# ------------------------------------------------------------------ C01: repeated leaves, keyword-prefixed leaf names
p = '/verif/pv/props/c01.py'
s = open(p).read()
s = s.replace('''FAMILIES = {''', '''KW_NAMES = ['org', 'android', 'notify', 'andy', 'oracle', 'nothing', 'Not_a', 'AND1', 'ORb', 'notes', 'order', 'andes']

FAMILIES = {
    # attribute names that merely BEGIN with the letters of a keyword are ordinary checks
    'kw': (lambda i: '%s%d:1' % (KW_NAMES[i % len(KW_NAMES)], i),
           lambda truth: dict({'%s%d' % (KW_NAMES[i % len(KW_NAMES)], i): 1 for i, v in enumerate(truth) if v}, roles=[])),''')
s = s.replace('''    if s == 'A':
        toks, k = expr.number_leaves(case['toks'])
        ast = expr.parse_tokens(toks)          # grammatical by construction''', '''    if s == 'A':
        toks, k = expr.number_leaves(case['toks'])
        if case.get('reuse'):
            # the same few leaves written again and again (leaf i -> i mod m): `a or a and b`, `not a and a` ...
            m = case['reuse']
            toks = [('leaf', t[1] % m) if isinstance(t, tuple) else t for t in toks]
            k = min(k, m)
            ctx.count('sentences_with_repeated_leaves')
        ast = expr.parse_tokens(toks)          # grammatical by construction''')
s = s.replace('''            case = dict(s='A', toks=list(seq), fam='role' if idx % 3 else 'attr')''', '''            case = dict(s='A', toks=list(seq), fam=('role', 'attr', 'kw', 'role')[idx % 4])
            if sum(1 for t in seq if t == 'c') >= 2 and idx % 2:
                yield dict(s='A', toks=list(seq), fam=('role', 'kw')[idx % 2], reuse=1 + (idx // 2) % 2)''')
s = s.replace("'parsed_after_malformed_rule': 100,", "'parsed_after_malformed_rule': 100, 'sentences_with_repeated_leaves': 500,")
s = s.replace("leaves numbered left to right;", "leaves numbered left to right, and again with only one or two distinct leaves repeated; three leaf families (role checks, attribute checks, attribute names that begin with the letters of a keyword);")
open(p, 'w').write(s)

# ------------------------------------------------------------------ C06: unknown name enforced directly == undefined reference; deletion
p = '/verif/pv/props/c06.py'
s = open(p).read()
s = s.replace('''    # (ii) inline one reference''', '''    # (iii) an undefined reference behaves exactly like enforcing an unknown policy name directly
    for roles in SUBSETS:
        stats = {'object_default': case['default_mode'] == 'ctor-object'}
        want = ev(('ref', 'pv-unknown-policy'), rules, default, roles, stats)
        try:
            direct = bool(enf.enforce('pv-unknown-policy', {}, {'roles': list(roles)}))
        except Exception as e:
            direct = 'EXC:' + type(e).__name__
        ctx.count('unknown_name_direct_decisions')
        if direct != want:
            ctx.violation('unknown-policy-not-like-undefined-reference', case,
                          {'rules': texts, 'default': default, 'default_mode': case['default_mode'], 'roles': roles,
                           'enforcing_unknown_name_directly': direct, 'undefined_reference_decides': want})
            break
    # (ii) inline one reference''')
s = s.replace('''    how = case['how']
    if how == 'merge':''', '''    how = case['how']
    if how == 'delete':
        # a referenced rule is deleted from the living store: references to it are undefined from now on
        victim = sorted(new)[0]
        cur = {k: v for k, v in rules.items() if k != victim}
        try:
            del enf.rules[victim]
        except KeyError:
            pass
    elif how == 'merge':''')
s = s.replace("how=ctx.rnd.choice(['merge', 'update', 'setitem', 'overwrite'])", "how=ctx.rnd.choice(['merge', 'update', 'setitem', 'overwrite', 'delete'])")
s = s.replace("'redefinition_decisions': 2000}", "'redefinition_decisions': 2000, 'unknown_name_direct_decisions': 1000}")
open(p, 'w').write(s)

# ------------------------------------------------------------------ C12: registered defaults that reference a rule defined in the files
p = '/verif/pv/props/c12.py'
s = open(p).read()
s = s.replace("NAMES = ['new', 'old', 'same', 'plain', 'zz']", "NAMES = ['new', 'old', 'same', 'plain', 'zz', 'helper']")
s = s.replace('''CONTENTS = [{}, {'new': 'role:x'}, {'old': 'role:y'}, {'same': 'role:z', 'plain': 'role:x'}, {'old': 'rule:new'},
            {'extra': 'role:x', 'old': 'role:z', 'new': 'role:y'}]''', '''CONTENTS = [{}, {'new': 'role:x'}, {'old': 'role:y'}, {'same': 'role:z', 'plain': 'role:x'}, {'old': 'rule:new'},
            {'extra': 'role:x', 'old': 'role:z', 'new': 'role:y'}, {'helper': 'role:x'}, {'helper': 'role:y', 'new': 'role:z'},
            {'helper': 'role:z'}]''')
s = s.replace("policy.RuleDefault('plain', 'role:p or role:q', description='d')]\n    return [policy.RuleDefault('new', new_cs)", "policy.RuleDefault('plain', 'role:p or rule:helper', description='d')]\n    return [policy.RuleDefault('new', new_cs)")
s = s.replace("            policy.RuleDefault('plain', 'role:p or role:q', description='d')]", "            policy.RuleDefault('plain', 'role:p or rule:helper', description='d')]")
open(p, 'w').write(s)
print('r3e ok')
