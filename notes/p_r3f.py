import re

# ------------------------------------------------------------------ sched helper: all single pre-emptions of A by a complete B
p = '/verif/pv/mon/sched.py'
s = open(p).read()
if 'def overlap_results' not in s:
    s += '''

def overlap_results(make_a, make_b, limit=80):
    """Two calls that overlap in time: A is pre-empted at each of its library line boundaries, B runs to completion in
    between, A finishes.  `make_a` / `make_b` build fresh zero-argument callables (so that every execution starts from the
    same inputs).  Yields (k, result_a, result_b); k = 0 is the sequential reference A; B."""
    r = Run({'A': make_a(), 'B': make_b()}, [['A', None], ['B', None]], lambda: None)
    res = r.run()
    yield 0, res.get('A'), res.get('B')
    n = min(r.counts['A'], limit)
    for k in range(1, n + 1):
        r = Run({'A': make_a(), 'B': make_b()}, [['A', k], ['B', None], ['A', None]], lambda: None)
        res = r.run()
        yield k, res.get('A'), res.get('B')
'''
    open(p, 'w').write(s)

# ------------------------------------------------------------------ C04: list-form role names, overlapping evaluations
p = '/verif/pv/props/c04.py'
s = open(p).read()
s = s.replace('''def run(ctx):
    self_check()''', '''def check_list_form(ctx, real, rnd):
    """List-of-lists rules are not tokenised: there a role name may contain spaces and parentheses."""
    policy, enf = real
    base = mk_name(rnd)
    deco = rnd.choice(['%s(EU)', 'Team %s', '%s )', '(%s)', '%s  x', '%s)', ' %s'])
    def name(ids):
        return deco % spell(rnd, ids)
    held = rnd.random() < 0.6
    other = mk_name(rnd)
    rule = [['role:' + name(base)]] if rnd.random() < 0.5 else ['role:' + name(base)]
    roles = [name(base)] if held else [name(other)]
    if other == base and not held:
        return
    ctx.case(['list-form', rule, roles], nontrivial=True, stratum='list-form')
    ctx.count('list_form_role_names')
    try:
        enf.set_rules(policy.Rules.from_dict({'p': rule}))
        got = bool(enf.enforce('p', {}, {'roles': roles}))
    except Exception as e:
        got = 'EXC:' + type(e).__name__
    if got != held:
        ctx.violation('list-form-role-name-mismatch', dict(list_form=True, rule=rule, roles=roles, want=held),
                      {'rule': rule, 'roles': roles, 'expected': held, 'observed': got})


def check_overlap(ctx, real, rnd):
    """Two requests evaluate the SAME rule (shared check objects) at the same time with different targets: each must be
    decided as if it ran alone.  Every single pre-emption of one by the other is executed."""
    from pv.mon import sched
    policy, enf = real
    a, b = mk_name(rnd), mk_name(rnd)
    if a == b:
        return
    rule = rnd.choice(['role:%(k)s', 'not role:%(k)s', 'role:%(k)s and @', 'role:x%(k)s or role:%(k)s'])
    enf.set_rules(policy.Rules.from_dict({'p': rule}))
    ta, tb = {'k': spell(rnd, a)}, {'k': spell(rnd, b)}
    ca, cb = {'roles': [spell(rnd, a)]}, {'roles': [spell(rnd, a)]}       # both hold role a only
    def mk(t, c):
        return lambda: (lambda: bool(enf.enforce('p', dict(t), {'roles': list(c['roles'])})))
    ref = None
    for k, ra, rb in sched.overlap_results(mk(ta, ca), mk(tb, cb)):
        ctx.count('overlapping_evaluations')
        if k == 0:
            ref = (ra, rb)
            continue
        if (ra, rb) != ref:
            ctx.violation('decision-depends-on-a-concurrent-evaluation', dict(overlap=True, rule=rule, ta=ta, tb=tb, roles=ca['roles']),
                          {'rule': rule, 'request_a': [ta, ca], 'request_b': [tb, cb], 'alone': list(ref), 'overlapping': [ra, rb],
                           'a_preempted_at_boundary': k})
            return
    ctx.case(['overlap', rule, ta, tb], nontrivial=True, stratum='overlap')


def run(ctx):
    self_check()''')
s = s.replace('''        if i % 5 == 0:
            check_sequence(ctx, (policy, enf), ctx.rnd)
    ctx.stratum('random', exhaustive=False)''', '''        if i % 5 == 0:
            check_sequence(ctx, (policy, enf), ctx.rnd)
        if i % 50 == 0:
            check_list_form(ctx, (policy, enf), ctx.rnd)
    ctx.stratum('random', exhaustive=False)
    # overlapping evaluations last: the line-level scheduler slows everything that runs after it is installed
    from pv.mon import sched
    try:
        for i in range(12 if ctx.tier == 'quick' else 200):
            if ctx.expired():
                break
            check_overlap(ctx, (policy, enf), ctx.rnd)
    finally:
        sched.uninstall()''')
s = s.replace("'non_dict_credentials': 1000}", "'non_dict_credentials': 1000, 'list_form_role_names': 200, 'overlapping_evaluations': 100}")
s = s.replace("Stratum `sequence`:", "Stratum `list-form`: list-of-lists rules whose role names contain spaces / parentheses. Stratum `overlap`: two requests evaluate the same rule at the same time (every single pre-emption of one by the other, deterministic scheduler). Stratum `sequence`:")
open(p, 'w').write(s)

# ------------------------------------------------------------------ C05: RequestContext rebinding, overlapping evaluations
p = '/verif/pv/props/c05.py'
s = open(p).read()
s = s.replace('''def run(ctx):
    from oslo_policy import policy''', '''def check_context_sequence(ctx, real, rnd):
    """Credentials given as a RequestContext whose attributes the service rebinds between calls (and copies of it):
    every call is decided on the attribute values at that moment."""
    from oslo_context import context
    import copy as _copy
    policy, enf = real
    attr = rnd.choice(['project_id', 'user_id', 'domain_id'])
    rule = rnd.choice(['%s:%%(v)s' % attr, 'not %s:%%(v)s' % attr, '%s:%%(v)s and @' % attr])
    enf.set_rules(policy.Rules.from_dict({'p': rule}))
    c = context.RequestContext(**{attr: 'v0', 'roles': ['r']})
    cur = 'v0'
    for step in range(rnd.randint(2, 5)):
        op = rnd.choice(['rebind', 'rebind', 'copy', 'none'])
        if op == 'rebind':
            cur = rnd.choice(['v0', 'v1', 'v2', None])
            setattr(c, attr, cur)
        elif op == 'copy':
            c = _copy.copy(c)
            cur = rnd.choice(['v1', 'v3'])
            setattr(c, attr, cur)
        tv = rnd.choice(['v0', 'v1', 'v2', 'v3', 'None'])
        want = (str(cur) == tv)
        if rule.startswith('not '):
            want = not want
        try:
            got = bool(enf.enforce('p', {'v': tv}, c))
        except Exception as e:
            got = 'EXC:' + type(e).__name__
        ctx.count('context_sequence_decisions')
        if got != want:
            ctx.violation('stale-credentials-from-request-context', dict(context_sequence=True, rule=rule, attr=attr),
                          {'rule': rule, 'attribute': attr, 'value_now': cur, 'target_value': tv, 'step': step, 'op': op,
                           'expected': want, 'observed': got})
            return
    ctx.case(['ctx-seq', rule, attr], nontrivial=True, stratum='context-sequence')


def check_overlap(ctx, real, rnd):
    """Two requests evaluate the same attribute check at the same time with different targets (deterministic scheduler,
    every single pre-emption of one by the other): each is decided as if it ran alone."""
    from pv.mon import sched
    policy, enf = real
    rule = rnd.choice(['project_id:%(pid)s', 'not project_id:%(pid)s', "'p1':%(pid)s", 'a.b:%(pid)s or project_id:%(pid)s'])
    enf.set_rules(policy.Rules.from_dict({'p': rule}))
    creds = {'project_id': 'p2', 'a': {'b': 'zz'}, 'roles': []}

    def mk(pid):
        return lambda: (lambda: bool(enf.enforce('p', {'pid': pid}, dict(creds))))
    ref = None
    for k, ra, rb in sched.overlap_results(mk('p1'), mk('p2')):
        ctx.count('overlapping_evaluations')
        if k == 0:
            ref = (ra, rb)
            continue
        if (ra, rb) != ref:
            ctx.violation('decision-depends-on-a-concurrent-evaluation', dict(overlap=True, rule=rule),
                          {'rule': rule, 'credentials': creds, 'targets': ['p1', 'p2'], 'alone': list(ref), 'overlapping': [ra, rb],
                           'a_preempted_at_boundary': k})
            return
    ctx.case(['overlap', rule], nontrivial=True, stratum='overlap')


def run(ctx):
    from oslo_policy import policy''')
s = s.replace('''        if i % 8000 == 0:
            ctx.sample({'rule': rule_text(case), 'target': case['target'], 'creds': case['creds']})
    ctx.stratum('random', exhaustive=False)''', '''        if i % 8000 == 0:
            ctx.sample({'rule': rule_text(case), 'target': case['target'], 'creds': case['creds']})
        if i % 40 == 0:
            check_context_sequence(ctx, (policy, enf), ctx.rnd)
    ctx.stratum('random', exhaustive=False)
    from pv.mon import sched
    try:
        for i in range(12 if ctx.tier == 'quick' else 200):
            if ctx.expired():
                break
            check_overlap(ctx, (policy, enf), ctx.rnd)
    finally:
        sched.uninstall()''')
s = s.replace("'list_fanout_cases': 200}", "'list_fanout_cases': 200, 'context_sequence_decisions': 500, 'overlapping_evaluations': 100}")
s = s.replace("Non-trivial = the reference allows,", "Strata `context-sequence` (a RequestContext whose attributes are rebound / which is copied between calls) and `overlap` (two requests evaluating the same check at the same time, every single pre-emption). Non-trivial = the reference allows,")
open(p, 'w').write(s)
print('r3f ok')
