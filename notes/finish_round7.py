"""Round 4 bookkeeping: write caught_by / first_run / strengthening into seeded/*-g, *-h meta.json from selftest_seeded.json."""
import glob
import json
import os

res = {r['id']: r for r in json.load(open('/verif/selftest_seeded.json'))}
S = {
 'C01-p': 'C01 stratum G: parentheses glued to keywords ((not, ((NOT) in every sentence up to 9 tokens + one all-glued spelling per random AST',
 'C03-o': 'C03 stratum `deprecated`: registered defaults with renamed / same-name predecessors in file-loading enforcers; the old name defined nowhere must be decided by the default rule only',
 'C03-p': 'C03 stratum `shared_files`: two or three living enforcers over one file / directory, edits between their questions',
 'C04-p': 'C04 stratum `other-entries`: credentials with service_roles / role / Roles / ... naming X while roles does not; dict, RequestContext, to_policy_values()',
 'C05-o': 'C05 stratum `containers`: credentials as UserDict / MutableMapping / to_policy_values(), nested MappingProxyType / OrderedDict, tuples (unconstrained)',
 'C06-o': 'C06 stratum `check-class-hierarchy`: custom check classes in hierarchies of mixed arity, unregistered derived classes as check objects, shuffled evaluation order',
 'C06-p': 'C06 stratum `registered-never-loaded`: use_conf=False enforcers whose registered defaults never reach the store, referenced at depth and under not',
 'C07-o': 'C07 stratum `lookup`: names defined nowhere falling back to default rules of every name and kind; PolicyNotAuthorized must name the requested policy',
 'C07-p': 'C07 stratum `lookup`: keys / values containing the words oslo.utils masks as secrets, decided with debug logging on and off against the reference',
 'C08-o': 'C08 stratum `history`: enforcers fed in every public way (use_conf False, set_rules, register_default after the first enforce / after clear()) crossed with the scope matrix',
 'C09-o': 'C09 stratum P: one or two earlier enforcers in the same process over the same world, every one compared with the documented fold',
 'C09-p': 'C09 stratum L: policy directory entries that are symbolic links (relative, absolute, chained, through linked directories); relink histories',
 'C10-p': 'C10 strata F / FR: default rule supplied by a directory file / registered default / option while the main file is deleted and re-created; names defined nowhere compared',
 'C11-o': 'C11 SPLIT stratum: every other attribute of a default (deprecated_for_removal, scope_types, documented form, legacy metadata) crossed with the override table',
 'C11-p': 'C11 SPLIT stratum: one predecessor shared by 1-3 successors (renamed + same-name) in every registration order',
 'C12-o': 'C12 stratum M: six spellings of deprecation metadata, snapshot of every public attribute of every passed-in object by value and identity',
 'C13-o': 'C13 stratum R: registered defaults not loaded (use_conf=False) referenced by / referring into the set; bounded evaluation whenever nothing is reported',
 'C13-p': 'C13 stratum R: rule sets reaching the enforcer by every route (constructor, set_rules merges, main file + policy.d layers), judged on the folded effective set',
 'C14-o': 'C14 stratum PK: placeholder keys with dots / colons / dashes against flat targets holding the prefix key with values of every JSON type',
 'C14-p': 'C14 stratum LE: blank entries inside inner lists of list-of-lists rules, every position, every route',
 'C15-o': 'C15 stratum `eq-pairs`: RuleDefault equality on prefix / suffix / permuted / duplicated operand lists, both directions',
 'C15-p': 'C15 stratum `url-leaves`: http(s) leaves with userinfo, ports, queries, escapes; recording transport compares the URL a re-parsed rule requests',
 'C16-p': 'C16 stratum I: the remote check reached through the default-rule fallback, undefined references, aliases, check objects; rule name sent must be the enforced one',
 'C17-p': 'C17 stratum `overlap`: two generations in two threads under the scheduler, each output compared with the same generation alone',
 'C18-p': 'C18 stratum `place`: tools writing in place, over an existing longer file, into the directory they read from, through links',
}
n = 0
for meta in sorted(glob.glob('/verif/seeded/*/meta.json')):
    name = os.path.basename(os.path.dirname(meta))
    if name[-1] not in "op":
        continue
    d = json.load(open(meta))
    r = res.get('seeded-' + name)
    if not r:
        print('no result for', name)
        continue
    c = r['checks'][r['prop']]
    d['round'] = 7
    d['caught_by'] = {'check': './check %s quick' % r['prop'], 'exit': c['rc'], 'mechanism_keys': c['keys'], 'seconds': c['secs'],
                      'replay_files_reproduce_on_changed_tree_and_hold_on_unchanged': c.get('replays')}
    d['what_was_run'] = ['git apply patch.diff in a scratch worktree; repository suite (345 passed, root-only test deselected); demo.py fails; git checkout; demo.py passes',
                         'pv.selftest.run --seeded: patch applied to a scratch copy of /repo, suite re-run, ./check %s quick with VERIF_REPO=<copy> -> exit %s; every replay file re-executed against the copy (must reproduce) and against /repo (must hold)' % (r['prop'], c['rc'])]
    if name in S:
        d['first_run'] = 'MISSED by the check as it stood when the change arrived'
        d['strengthening'] = S[name]
    else:
        d['first_run'] = 'caught by the check as it stood when the change arrived'
        d.pop('strengthening', None)
    json.dump(d, open(meta, 'w'), indent=1)
    n += 1
print('updated', n)
