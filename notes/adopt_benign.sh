#!/bin/sh
# keep the behaviour-preserving refactorings under /verif/benign/<n>/
cd /verif
while read n theme; do
  [ -f /tmp/benign/$n/patch.diff ] || { echo "skip $n (not there yet)"; continue; }
  mkdir -p benign/$n
  cp /tmp/benign/$n/patch.diff benign/$n/patch.diff
  [ -f /tmp/benign/$n/notes.md ] && cp /tmp/benign/$n/notes.md benign/$n/notes.md
  /venv/bin/python - "$n" "$theme" <<'EOF'
import json, sys
n, theme = sys.argv[1], sys.argv[2]
json.dump({'theme': theme, 'origin': 'independent sub-agent asked for a behaviour-preserving refactoring (all twenty properties must still hold); '
           'it was given the property texts and its own scratch worktree, nothing from /verif',
           'expectation': 'every check exits 0'}, open('/verif/benign/%s/meta.json' % n, 'w'), indent=1)
EOF
  echo "kept benign/$n"
done <<'EOF'
1 parser-restructured(_parser.py:reducer-index,iterative-reduce,_Tokenizer-class,split-list-parser)
2 checks-restructured(_checks.py:cached-arity,iterative-path-walk,shared-and/or-base,reordered-registration)
3 load_rules-split-and-private-names-renamed(policy.py)
4 enforce-split-into-helpers,_enforce_scope-renamed,Rules.__missing__-restructured(policy.py)
5 generator.py-restructured
6 _external.py/shell.py/_cache_handler.py-restructured
7 deprecated-rule-handling-and-validation-walks-restructured(policy.py)
8 copy-then-swap-reload(improvement)
EOF
