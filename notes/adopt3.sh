#!/bin/sh
cd /verif
while read prop src tag needs; do
  [ -f /tmp/seed-out3/$prop/$src/patch.diff ] || { echo "skip $prop $src (not there yet)"; continue; }
  [ -d /verif/seeded/$prop-$tag ] && continue
  /venv/bin/python -m pv.selftest.adopt $prop /tmp/seed-out3/$prop/$src /tmp/wt3-$prop $prop-$tag "$needs" 2>&1 | tail -1 | cut -c1-60
done <<'EOF'
C07 a e bare-role-check-with-empty-roles-list-and-do_raise([]-returned;two-cooperating-edits)
C07 b f denied+do_raise+custom-exception-with-keyword-argument-called-name
C16 a e opaque-object-nested-at-depth>=2-in-the-target(two-cooperating-edits)
C16 b f debug-logging-on+target-key-named-like-a-secret(masked-copy-replaces-target)
C08 a e policy-registered-as-DocumentedRuleDefault(cheap-deepcopy-drops-scope_types)
C08 b f renamed-policy-with-scope-types+old-name-overridden-in-file(scope-types-nulled-for-good)
C11 a e old-name-still-registered-and-overridden-with-ITS-current-default
C11 b f old-name-override-in-two-layered-files-with-different-values
C09 a e policy.d-only-deployment:load,edit-dir-file,load(registered-defaults-vanish)
C09 b f explicit-policy_file=policy.yaml-absent+policy.json-present
C13 a e registered-default-not-in-file-references-undefined-rule(validator-only)
C13 b f wholly-unparseable-rule-that-is-not-text(list/number/mapping)-in-validator
C18 a e namespace-defaults-given-as-one-shot-iterable-to-convert
C18 b f policy.d-only-change-on-living-enforcer-then-policy-generator(stale-file_rules)
C03 a e default-rule-dropped-after-construction(clear()/attribute)-then-rules-installed-again
C03 b f null-valued-file-entry(defined-deny)-dropped-so-default-decides
C02 a e see-notes
C02 b f see-notes
C10 a e see-notes
C10 b f see-notes
EOF
