"""Round 4 bookkeeping: write caught_by / first_run / strengthening into seeded/*-g, *-h meta.json from selftest_seeded.json."""
import glob
import json
import os

res = {r['id']: r for r in json.load(open('/verif/selftest_seeded.json'))}
S = {
 'C01-g': 'C01: every eleventh sentence is, after being decided, registered as the default of a policy with a deprecated predecessor in another enforcer (merged with enforce_new_defaults off) and then parsed and decided again, also under the deprecated role',
 'C01-h': 'C01 stratum O, shared mode: ONE parsed rule with wide and/or nodes evaluated by two threads at once, each walking the truth assignments in its own order',
 'C02-g': 'scheduler: lock acquisition became a scheduling point (the change adds a lock, which hung the scheduler: exit 2, not a catch); C02 stratum O (malformed rule loaded while a permissive one is being loaded)',
 'C03-g': 'C03 stratum `reload`: a name defined in the main file decided while another thread re-reads the rewritten main file (every sampled boundary of the reload)',
 'C03-h': 'C03: a third of the table rows run with the debug logging of the library switched on',
 'C04-g': 'C04 stratum `case-keys`: placeholder keys (and literal role names) that differ only in letter case, parsed one after the other, side by side and in one expression',
 'C06-g': 'C06 overlap stratum: both requests in flight at once (A stops, B runs part of the way, A finishes, B finishes) on rule sets in which one name is referenced twice under and/or, role sets chosen so that it decides differently',
 'C06-h': 'C06 stratum `late-default`: the default rule is defined only later on the living enforcer (merge, store update, registered default, policy.d file, rewritten file); undefined references re-decided',
 'C07-g': 'C07 stratum `related-names`: authorize() on unregistered names related to registered ones (deprecated old name of a renamed policy, other letter case, prefix/suffix, file-only names, the default rule name): PolicyNotRegistered and nothing evaluated',
 'C08-h': 'C08 stratum `alias`: registered policies whose check is a rule: reference (bare, under not/and/or, chains) to a policy that declares different scope types',
 'C09-g': 'C09 stratum H: 2-3 step histories on the living enforcer (drop names from a policy.d file, re-save the main file with identical bytes, delete/add files, two operations per step), every name re-checked against the fold of the current files',
 'C09-h': 'C09 strata W / ZC: relative policy_file / policy_dirs names with the working directory set to a decoy directory holding same-named files (also names the config dir lacks)',
 'C10-g': 'C10 strata G / GR: registered defaults that reference helper rules defined only in the files (and other registered defaults), enforced between the edits',
 'C11-g': 'C11: old-name override spelled as a lexical variant (parentheses, keyword case, whitespace, @ vs empty) of the deprecated default - textually different, so it governs',
 'C11-h': 'C11: a predecessor enforcer built from the SAME RuleDefault objects with the opposite enforce_new_defaults value is loaded and used first; new defaults of every top-level shape',
 'C13-h': 'C13 stratum L: the validator runs with a LIVING enforcer after the policy file was deleted / replaced (verdict must be the one for the current file)',
 'C14-g': 'C14 stratum E: left sides with leading / trailing / doubled dots whose non-empty segments do resolve to the match (must deny)',
 'C14-h': 'C14 stratum M: credentials and targets in other mapping containers (MappingProxyType, read-only Mapping, UserDict, OrderedDict, defaultdict, ChainMap); only the exception surface is judged',
 'C15-g': 'C15 stratum E: print - evaluate in all worlds - print; dumps after enforcing; identical RuleDefaults stay equal after evaluation',
 'C15-h': 'C15 stratum `first-use` (pv/mon/firstuse.py): a fresh interpreter per schedule, two threads parse/print/decide as the very first use of the library, pre-empted at the boundaries that exist on first use only',
 'C16-h': 'C16 stratum S: fault SEQUENCES on one living enforcer (TLS file vanishes after a successful request, comes back, options re-pointed, transport faults in between)',
 'C18-h': 'C18 stratum `repeat`: the same input text handed to several tools / enforcers back to back in one process, decisions of the input measured before any tool touches it',
 'C19-h': 'C19: policy names whose segments continue with characters on both sides of `:` in code-point order (- . / digits vs ; = _ letters), empty segments, case-only pairs',
 'C20-h': 'C20 plan family P6 (decider inside its FIRST load at every boundary when the files change) and scenarios in which the edit drops a rule (referenced / unreferenced); classifier tells a KeyError for a referenced name (known) from any other',
}
n = 0
for meta in sorted(glob.glob('/verif/seeded/*/meta.json')):
    name = os.path.basename(os.path.dirname(meta))
    if name[-1] not in 'gh':
        continue
    d = json.load(open(meta))
    r = res.get('seeded-' + name)
    if not r:
        print('no result for', name)
        continue
    c = r['checks'][r['prop']]
    d['round'] = 4
    d['caught_by'] = {'check': './check %s quick' % r['prop'], 'exit': c['rc'], 'mechanism_keys': c['keys'], 'seconds': c['secs'],
                      'replay_files_reproduce_on_changed_tree_and_hold_on_unchanged': c.get('replays')}
    d['what_was_run'] = ['git apply patch.diff in a scratch worktree; repository suite (345 passed, root-only test deselected); demo.py fails; git checkout; demo.py passes',
                         'pv.selftest.run --seeded: patch applied to a scratch copy of /repo, suite re-run, ./check %s quick with VERIF_REPO=<copy> -> exit %s; every replay file re-executed against the copy (must reproduce) and against /repo (must hold)' % (r['prop'], c['rc'])]
    if name in S:
        d['first_run'] = 'MISSED by the check as it stood when the change arrived'
        d['strengthening'] = S[name]
    else:
        d['first_run'] = 'caught by the check as it stood when the change arrived'
        d.pop('strengthening', None)
    json.dump(d, open(meta, 'w'), indent=1)
    n += 1
print('updated', n)
