import logging, traceback
logging.disable(logging.CRITICAL)
from oslo_policy import _parser, _checks, policy
from oslo_config import cfg

def show(v):
    try:
        r = _parser.parse_rule(v)
        print(repr(v), '->', type(r).__name__, repr(str(r)))
    except Exception as e:
        print(repr(v), 'RAISES', type(e).__name__, e)

for v in ['not', '(', ')', 'and', 'or', '"abc"', "'abc'", '""', '"a b"', '(())', '()', 'role:a role:b', 'role:a and', 'and role:a', 'not not', 'role:a or', '( role:a', 'role:a )', '"abc" or @', '@ or "abc"', 'not "abc"', ' ', '\t', 'foobar',
          None, False, True, 0, 1, 1.5, {}, {'@': 1}, {'role:a': 'x'}, [1], [None], [[None]], [[1]], [True], [['@', 1]], [{'@': 1}], ['@'], [[]], [[], []], [''], [['']], ('@',), (), [('@',)], [[['@']]], [['role:a', ['@']]]]:
    show(v)
