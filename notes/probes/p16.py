# prototypes: C13 random graphs; C05/C14 fuzz; C15 roundtrip (against PYTHONPATH tree)
import logging, sys, random, warnings, json, re
logging.disable(logging.CRITICAL); warnings.simplefilter('ignore')
from oslo_policy import policy, opts, _parser, _checks
from oslo_config import cfg
import oslo_policy; print(oslo_policy.__file__)
rnd=random.Random(5)
conf=cfg.ConfigOpts(); conf([],default_config_dirs=[],default_config_files=[])
def gen(depth, leaves):
    r=rnd.random()
    if depth<=0 or r<0.3: return ('leaf', rnd.choice(leaves))
    if r<0.45: return ('not', gen(depth-1,leaves))
    k=rnd.randint(2,3)
    return (rnd.choice(['and','or']), [gen(depth-1,leaves) for _ in range(k)])
def render(a, top=True):
    if a[0]=='leaf': return a[1]
    if a[0]=='not': return 'not '+render(a[1],False)
    s=(' %s '%a[0]).join(render(x,False) for x in a[1])
    return s if top and rnd.random()<0.5 else '('+s+')'
def refs(a):
    if a[0]=='leaf': return [a[1][5:]] if a[1].startswith('rule:') else []
    if a[0]=='not': return refs(a[1])
    return [r for x in a[1] for r in refs(x)]
# C13
bad=0; N=3000; stats={'clean':0,'undef':0,'cycle':0}
for it in range(N):
    names=['n%d'%i for i in range(rnd.randint(1,6))]
    leaves=['role:a','role:b']+['rule:'+n for n in names]+(['rule:ghost'] if rnd.random()<0.3 else [])
    rules={n: gen(rnd.randint(0,3), leaves if rnd.random()<0.7 else ['role:a','role:b']) for n in names}
    g={n:set(refs(a)) for n,a in rules.items()}
    undef=any(r not in rules for rs in g.values() for r in rs)
    def reach_cycle(n):
        # DFS path based
        def dfs(x, path):
            if x in path: return True
            if x not in g: return False
            return any(dfs(y, path|{x}) for y in g[x])
        return dfs(n,frozenset())
    cyc=any(reach_cycle(n) for n in rules)
    E=policy.Enforcer(conf,use_conf=False); E.set_rules(policy.Rules.from_dict({n:render(a) for n,a in rules.items()}))
    got=E.check_rules(); exp=not(undef or cyc)
    stats['undef' if undef else 'cycle' if cyc else 'clean']+=1
    if got!=exp:
        bad+=1
        if bad<5: print('C13 BAD', {n:render(a) for n,a in rules.items()}, got, exp)
    if exp:
        sys.setrecursionlimit(600)
        for n in rules:
            for roles in ([],['a'],['b'],['a','b']):
                try: E.enforce(n,{}, {'roles':roles})
                except Exception as ex: bad+=1; print('C13 EVAL', type(ex).__name__)
        sys.setrecursionlimit(1000)
print('C13 graphs',N,stats,'bad',bad)
# C14/C05 hostile
hostile=['class','1+','a.0','{[1]}','[','0x','007','1.','.5','..','a..b',"'a",'"a','9'*5000,'None','True.x','a[0]','-','--1','1e999','1_0','...','b\'x\'','{1:2}','(1,)','-1','+1','1j','lambda','a.b.c','x..','.','','u.v','u.v.w','u']
vals=[None,True,False,0,1,1.5,'s','',[],{},[1,'a',None],[[{'v':'x'}]],{'v':'x'},{'v':['x',['x']]},[{'v':{'w':1}}], 'x']
bad=0;n=0
for it in range(20000):
    lhs=rnd.choice(hostile); rhs=rnd.choice(['x','%(t)s','1','None',"['x']"])
    creds={'roles':['r'], 'u':rnd.choice(vals), 'a':rnd.choice(vals), 'x':rnd.choice(vals)}
    tgt={'t':rnd.choice([None,True,1,1.5,'x',"['x']"])} if rnd.random()<0.8 else {}
    E=policy.Enforcer(conf,use_conf=False); E.set_rules(policy.Rules.from_dict({'p':'%s:%s'%(lhs,rhs)}))
    try: E.enforce('p',tgt,creds); n+=1
    except Exception as ex:
        bad+=1
        if bad<6: print('C14 BAD', lhs, rhs, creds, type(ex).__name__, str(ex)[:80])
print('C14 cases',n,'bad',bad)
# C15 roundtrip with rich leaves
leaves=['role:a','rule:x',"'Member':%(role.name)s",'True:%(user.enabled)s','project_id:%(project_id)s','http://h/%(n)s','https://h:8/p?q=1','@','!','a.b.c:d','1:1','role:compute:admin','"dq":%(x)s']
bad=0
for it in range(5000):
    a=gen(rnd.randint(0,4),leaves); t=render(a)
    c=_parser.parse_rule(t); s=str(c); c2=_parser.parse_rule(s)
    if str(c2)!=s: bad+=1; print('C15 BAD',t,s,str(c2))
print('C15 bad',bad)
