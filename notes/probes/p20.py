# prototype C08 exhaustive table + C03 table
import logging, os, tempfile, sys, json, itertools, shutil, warnings
logging.disable(logging.CRITICAL); warnings.simplefilter('ignore')
from oslo_policy import policy, opts, _checks
from oslo_config import cfg
from oslo_context import context
import oslo_policy; print(oslo_policy.__file__)
scopes=['system','domain','project']
sts=[None]+[list(p) for r in (1,2,3) for p in itertools.permutations(scopes,r)]
class SC(_checks.BaseCheck):
    def __init__(s,res,st): s.res=res; s.scope_types=st
    def __str__(s): return 'sc'
    def __call__(s,t,c,e,current_rule=None): return s.res
bad=0;n=0
for es in (True,False):
  for override in (False,True):
    d=tempfile.mkdtemp(dir='/tmp/probe')
    conf=cfg.ConfigOpts(); conf([],default_config_dirs=[],default_config_files=[]); opts._register(conf)
    conf.set_override('policy_file',d+'/policy.yaml','oslo_policy'); conf.set_override('policy_dirs',[],'oslo_policy'); conf.set_override('enforce_scope',es,'oslo_policy')
    E=policy.Enforcer(conf)
    names={}
    filerules={'keep':'@'}
    for i,st in enumerate(sts):
        for res in (True,False):
            nm='p%d_%d'%(i,res)
            # default check is opposite of result when overridden
            E.register_default(policy.RuleDefault(nm, ('@' if res else '!') if not override else ('!' if res else '@'), scope_types=st))
            if override: filerules[nm]='@' if res else '!'
            names[nm]=(st,res)
    open(d+'/policy.yaml','w').write(json.dumps(filerules))
    for nm,(st,res) in names.items():
        for sysmode,dom,proj in itertools.product(['none','system','system_scope'],[0,1],[0,1]):
            for rep in ('dict','ctx','pv'):
                if rep!='dict' and sysmode=='system': continue
                for byobj in (False,True):
                    for do_raise in (False,True):
                        if rep=='dict':
                            creds={'roles':[]}
                            if sysmode!='none': creds[sysmode]='all'
                            if dom: creds['domain_id']='d'
                            if proj: creds['project_id']='p'
                        else:
                            ctx=context.RequestContext(system_scope='all' if sysmode!='none' else None, domain_id='d' if dom else None, project_id='p' if proj else None, roles=[])
                            creds=ctx if rep=='ctx' else ctx.to_policy_values()
                        tok='system' if sysmode!='none' else 'domain' if dom else 'project'
                        rule=SC(res,st) if byobj else nm
                        if st and es and tok not in st: exp='InvalidScope' if do_raise else False
                        else: exp=True if res else ('PolicyNotAuthorized' if do_raise else False)
                        try: got=E.enforce(rule,{},creds,do_raise=do_raise)
                        except Exception as ex: got=type(ex).__name__
                        n+=1
                        if got!=exp:
                            bad+=1
                            if bad<6: print('BAD',st,res,sysmode,dom,proj,rep,byobj,do_raise,es,override,got,exp)
    shutil.rmtree(d)
print('C08 rows',n,'bad',bad)
