import logging, warnings
logging.disable(logging.CRITICAL); warnings.simplefilter('ignore')
from oslo_policy import _checks, policy, opts
from oslo_config import cfg
from oslo_context import context
print(_checks.get_extensions())
c = context.RequestContext(system_scope='all', domain_id='d1', project_id='p1', roles=['r'], user_id='u')
pv = c.to_policy_values()
print(type(pv), dict(pv))
c2 = context.RequestContext(roles=['r'])
print(dict(c2.to_policy_values()))
conf = cfg.ConfigOpts(); conf([], default_config_dirs=[], default_config_files=[])
opts._register(conf)
print(conf.get_location('policy_file','oslo_policy'))
opts.set_defaults(conf, policy_file='policy.yaml')
print(conf.get_location('policy_file','oslo_policy'))
conf.set_override('policy_file','policy.yaml',group='oslo_policy')
print(conf.get_location('policy_file','oslo_policy'))
import copy
print([ (o.name, o.default, getattr(o,'_set_location',None)) for o in opts._options if o.name=='policy_file'])
