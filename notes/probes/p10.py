# prototype C01 (exhaustive token sequences) + C15 roundtrip + C13 graphs
import logging, sys, itertools, random, warnings, time
logging.disable(logging.CRITICAL); warnings.simplefilter('ignore')
from oslo_policy import policy, opts, _parser, _checks
from oslo_config import cfg
import oslo_policy; print(oslo_policy.__file__)

# reference grammar
def parse_ref(toks):
    pos = [0]
    def peek(): return toks[pos[0]] if pos[0] < len(toks) else None
    def eat(): pos[0]+=1
    def expr():
        l = and_(); items=[l]
        while peek()=='or': eat(); items.append(and_())
        return items[0] if len(items)==1 else ('or', items)
    def and_():
        l = not_(); items=[l]
        while peek()=='and': eat(); items.append(not_())
        return items[0] if len(items)==1 else ('and', items)
    def not_():
        if peek()=='not': eat(); return ('not', not_())
        return atom()
    def atom():
        t = peek()
        if t=='(':
            eat(); e = expr()
            if peek()!=')': raise SyntaxError
            eat(); return e
        if isinstance(t, tuple): eat(); return t
        raise SyntaxError
    e = expr()
    if pos[0]!=len(toks): raise SyntaxError
    return e
def ev(ast, truth):
    if ast[0]=='leaf': return truth[ast[1]]
    if ast[0]=='not': return not ev(ast[1], truth)
    if ast[0]=='and': return all(ev(x,truth) for x in ast[1])
    if ast[0]=='or': return any(ev(x,truth) for x in ast[1])

conf = cfg.ConfigOpts(); conf([], default_config_dirs=[], default_config_files=[])
E = policy.Enforcer(conf, use_conf=False)
acc=rej=bad=0
t0=time.time()
N=int(sys.argv[1])
for L in range(1,N+1):
    for seq in itertools.product(['(',')','and','or','not','c'], repeat=L):
        toks=[]; k=0
        for s in seq:
            if s=='c': toks.append(('leaf',k)); k+=1
            else: toks.append(s)
        text = ' '.join('role:r%d'%t[1] if isinstance(t,tuple) else t for t in toks)
        try: ast = parse_ref(toks)
        except (SyntaxError, IndexError): ast=None
        E.set_rules(policy.Rules.from_dict({'p': text}))
        if ast is None:
            rej+=1
            for m in range(2**k):
                roles=['r%d'%i for i in range(k) if m>>i&1]
                try: r = E.enforce('p',{}, {'roles':roles})
                except Exception as ex: r='EXC '+type(ex).__name__
                if r is not False:
                    bad+=1
                    if bad<10: print('REJ', repr(text), roles, r)
                    break
        else:
            acc+=1
            for m in range(2**k):
                truth=[bool(m>>i&1) for i in range(k)]
                roles=['r%d'%i for i in range(k) if truth[i]]
                r = E.enforce('p',{}, {'roles':roles})
                if bool(r)!=ev(ast,truth):
                    bad+=1; print('ACC', repr(text), roles, r); break
            # roundtrip
            c=_parser.parse_rule(text); s=str(c); c2=_parser.parse_rule(s)
            if str(c2)!=s: bad+=1; print('RT', text, s, str(c2))
print('accepted',acc,'rejected',rej,'bad',bad,'t',time.time()-t0)
