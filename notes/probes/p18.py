# C20 classification feasibility: record Rules lookups (thread, store id, signature), classify violations
import logging, os, sys, json, threading, time, warnings, shutil, random, collections
logging.disable(logging.CRITICAL); warnings.simplefilter('ignore')
from oslo_policy import policy
import p13
from p13 import SCEN, build, apply_new, dec, Sched
LOG=[]
def sig(store): return tuple(sorted((k,str(v)) for k,v in dict.items(store)))
orig_missing = policy.Rules.__missing__
def getitem(self, key):
    LOG.append((threading.get_ident(), id(self), key, sig(self)))
    try: return dict.__getitem__(self, key)
    except KeyError: return orig_missing(self, key)
policy.Rules.__getitem__ = getitem
def rbool(self):
    LOG.append((threading.get_ident(), id(self), '<bool>', sig(self)))
    return dict.__len__(self) > 0
policy.Rules.__bool__ = rbool

def layer_defs(sc):
    defs=set()
    for ver in ('old','new'):
        for f,c in sc[ver].items():
            if c:
                for k,v in c.items(): defs.add((k,str(policy._parser.parse_rule(v))))
    for n,cs,dep in sc['defaults']:
        defs.add((n,str(policy._parser.parse_rule(cs))))
        if dep:
            defs.add((n,'(%s or %s)'%(str(policy._parser.parse_rule(cs)),str(policy._parser.parse_rule(dep[1])))))
    return defs

def one(sc,pX,pY,plan):
    e,d=build(sc,'old'); probes=[(p[0],tuple(p[1])) for p in sc['probes']]
    old={p:dec(e,p) for p in probes}; sig_old=sig(e.rules)
    del LOG[:]
    tids={}
    def mk(name,p):
        def f():
            tids[threading.get_ident()]=name; return dec(e,p)
        return f
    s=Sched({'X':mk('X',pX),'Y':mk('Y',pY)}, plan, lambda:apply_new(sc,d))
    res=s.run(); log=[(tids.get(t),i,k,sg) for t,i,k,sg in LOG]
    new={p:dec(e,p) for p in probes}; sig_new=sig(e.rules)
    shutil.rmtree(d)
    return old,res,new,log,sig_old,sig_new,s.counts

if __name__=='__main__':
    name=sys.argv[1]; fam=sys.argv[2]; N=int(sys.argv[3]); sc=SCEN[name]; defs=layer_defs(sc)
    probes=[(p[0],tuple(p[1])) for p in sc['probes']]
    o,r,nw,_,_,_,c=one(sc,probes[0],probes[0],[('EDIT',),('X',None),('Y',None)]); nX=c['X']
    o,r,nw,_,_,_,c=one(sc,probes[0],probes[0],[('Y',None),('EDIT',),('X',None)]); nY0=c['Y']
    rnd=random.Random(3); classes=collections.Counter(); stores=set()
    for i in range(N):
        pX=rnd.choice(probes); pY=rnd.choice(probes)
        plan={'P1':[('EDIT',),('X',rnd.randint(1,nX)),('Y',None),('X',None)],
              'P2':[('Y',rnd.randint(1,nY0)),('EDIT',),('X',None),('Y',None)],
              'P3':[('EDIT',),('X',rnd.randint(1,nX)),('Y',rnd.randint(1,nX)),('X',None),('Y',None)],
              'P4':[('Y',rnd.randint(1,nY0)),('EDIT',),('X',rnd.randint(1,nX)),('Y',None),('X',None)]}[fam]
        old,res,new,log,so,sn,_=one(sc,pX,pY,plan)
        for who,p in (('X',pX),('Y',pY)):
            rr=res.get(who)
            mine=[(i_,k,sg) for w,i_,k,sg in log if w==who]
            for _,_,sg in mine: stores.add(sg)
            if rr in (old[p],new[p]): continue
            if isinstance(rr,str) and rr.startswith('EXC:RuntimeError:dictionary changed size'): cl='reload-iteration-race'
            elif isinstance(rr,str): cl='OTHER-EXC '+rr
            else:
                sigs=[sg for _,_,sg in mine]
                partial=[sg for sg in sigs if sg not in (so,sn)]
                if partial:
                    foreign=[e_ for sg in partial for e_ in sg if e_ not in defs]
                    cl='partial-rebuild-view' if not foreign else 'UNEXPLAINED-foreign-def %r'%(foreign[:2],)
                elif so in sigs and sn in sigs and so!=sn: cl='old-new-reference-mix'
                else: cl='UNEXPLAINED single complete store'
            classes[cl]+=1
    print(name,fam,'N',N,'distinct stores seen',len(stores),dict(classes))
