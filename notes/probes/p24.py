# prototype C03 table + C07 pairwise
import logging, sys, random, warnings, itertools, copy, os, tempfile, json, shutil
warnings.simplefilter('ignore')
from oslo_policy import policy, _checks, opts
from oslo_config import cfg
import oslo_policy; print(oslo_policy.__file__)
logging.getLogger().addHandler(logging.NullHandler())
def mkconf():
    c=cfg.ConfigOpts(); c([],default_config_dirs=[],default_config_files=[]); opts._register(c); c.set_override('policy_dirs',[],'oslo_policy'); return c
BOD=[None,'@','!','role:x','role:y']
CRED=[[],['x'],['y'],['x','y']]
def evb(b,roles): return {'@':True,'!':False,'role:x':'x' in roles,'role:y':'y' in roles}[b]
bad=0;n=0
for ba,bb,bd in itertools.product(BOD,repeat=3):
    rules={k:v for k,v in (('a',ba),('b',bb),('default',bd)) if v is not None}
    for dcfg in ['unset','ctor_default','ctor_other','ctor_ghost','obj_true','obj_false','obj_role','opt_b','opt_empty']:
        for via in ('set_rules','ctor','file'):
            c=mkconf(); kw={}
            if dcfg=='ctor_default': kw['default_rule']='default'
            if dcfg=='ctor_other': kw['default_rule']='b'
            if dcfg=='ctor_ghost': kw['default_rule']='ghost'
            if dcfg=='obj_true': kw['default_rule']=_checks.TrueCheck()
            if dcfg=='obj_false': kw['default_rule']=_checks.FalseCheck()
            if dcfg=='obj_role': kw['default_rule']=_checks.RoleCheck('role','x')
            if dcfg=='opt_b': c.set_override('policy_default_rule','b','oslo_policy')
            if dcfg=='opt_empty': c.set_override('policy_default_rule','','oslo_policy')
            d=None
            if via=='set_rules':
                E=policy.Enforcer(c,use_conf=False,**kw); E.set_rules(policy.Rules.from_dict(rules))
            elif via=='ctor':
                E=policy.Enforcer(c,use_conf=False,rules=policy.Rules.from_dict(rules),**kw)
            else:
                d=tempfile.mkdtemp(dir='/tmp/probe'); open(d+'/p.json','w').write(json.dumps(rules))
                E=policy.Enforcer(c,policy_file=d+'/p.json',**kw)
            dname={'unset':'default','ctor_default':'default','ctor_other':'b','ctor_ghost':'ghost','opt_b':'b','opt_empty':None}.get(dcfg)
            for q in ['a','b','default','ghost','zzz']:
                for roles in CRED:
                    if not rules: exp=False
                    elif q in rules: exp=evb(rules[q],roles)
                    elif dcfg=='obj_true': exp=True
                    elif dcfg=='obj_false': exp=False
                    elif dcfg=='obj_role': exp='x' in roles
                    elif dname and dname in rules: exp=evb(rules[dname],roles)
                    else: exp=False
                    try: got=E.enforce(q,{},{'roles':roles})
                    except Exception as ex: got='EXC:'+type(ex).__name__
                    n+=1
                    if got is not exp and bool(got)!=exp or isinstance(got,str):
                        bad+=1
                        if bad<6: print('C03 BAD',rules,dcfg,via,q,roles,got,exp)
            if d: shutil.rmtree(d)
print('C03 rows',n,'bad',bad)

# C07
class MyExc(Exception):
    def __init__(self,*a,**k): self.a=a; self.k=k
class Odd(_checks.BaseCheck):
    calls=0
    def __init__(s,v): s.v=v
    def __str__(s): return 'odd'
    def __call__(s,t,c,e,current_rule=None): Odd.calls+=1; return s.v
bad=0;n=0
lg=logging.getLogger('oslo_policy.policy')
for dbg in (False,True):
    lg.setLevel(logging.DEBUG if dbg else logging.WARNING)
    c=mkconf(); E=policy.Enforcer(c,use_conf=False)
    E.set_rules(policy.Rules.from_dict({'allow':'@','deny':'!','rx':'role:x','nrx':'not role:x'}))
    E.register_default(policy.RuleDefault('rx','role:x')); E.register_default(policy.RuleDefault('deny','!'))
    rulesets=['allow','deny','rx','nrx','ghost']+[Odd(v) for v in (0,'',None,[],'yes',1,object(),False,True)]
    for rule in rulesets:
        for roles in ([],['x']):
            creds={'roles':roles,'password':'secret','blob':b'\x00\xff','obj':object(),'s':{1,2}}
            tgt={'k':object(),'password':'p','n':{'a':[1,2]}}
            c0=dict(creds); t0=dict(tgt)
            r0=E.enforce(rule,tgt,creds)
            try: r1=E.enforce(rule,tgt,creds,do_raise=True); x1=None
            except Exception as ex: r1=None; x1=ex
            try: r2=E.enforce(rule,tgt,creds,True,MyExc,1,'two',kw=3); x2=None
            except Exception as ex: r2=None; x2=ex
            n+=1
            ok=True
            if not r0: ok = isinstance(x1,policy.PolicyNotAuthorized) and isinstance(x2,MyExc) and x2.a==(1,'two') and x2.k=={'kw':3} and (isinstance(rule,_checks.BaseCheck) or str(rule) in str(x1))
            else: ok = x1 is None and x2 is None and bool(r1) and bool(r2)
            if creds!=c0 or tgt!=t0: ok=False
            if not ok: bad+=1; print('C07 BAD',rule,roles,r0,r1,x1,r2,x2)
    before=Odd.calls
    for name in ('rx','deny'):
        try: E.authorize(name,{},{'roles':[]})
        except Exception as ex: bad+=1; print('authorize registered raised',ex)
    try: E.authorize('allow',{},{'roles':[]}); bad+=1; print('authorize unregistered did not raise')
    except policy.PolicyNotRegistered: pass
print('C07 triples',n,'bad',bad)
