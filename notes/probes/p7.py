import logging, os, tempfile, sys, json, threading, time, warnings
logging.disable(logging.CRITICAL); warnings.simplefilter('ignore')
from oslo_policy import policy, opts
from oslo_config import cfg
import oslo_policy
PKG = os.path.dirname(oslo_policy.__file__)

def setup():
    d = tempfile.mkdtemp(dir='/tmp/probe')
    conf = cfg.ConfigOpts(); conf([], default_config_dirs=[], default_config_files=[])
    opts._register(conf)
    conf.set_override('policy_file', os.path.join(d,'policy.yaml'), group='oslo_policy')
    conf.set_override('policy_dirs', [os.path.join(d,'policy.d')], group='oslo_policy')
    os.mkdir(os.path.join(d,'policy.d'))
    return conf, d
def write(p, t, clock=[1000000000]):
    open(p,'w').write(t); clock[0]+=10; os.utime(p,(clock[0],clock[0])); os.utime(os.path.dirname(p),(clock[0],clock[0]))

def scenario(k):
    conf, d = setup()
    write(os.path.join(d,'policy.yaml'), '"a": "role:x"\n')
    write(os.path.join(d,'policy.d','1.yaml'), '"a": "role:y"\n')
    e = policy.Enforcer(conf)
    e.register_default(policy.RuleDefault('c', 'role:z'))
    creds = {'roles': ['x']}
    old = e.enforce('a', {}, dict(creds))
    write(os.path.join(d,'policy.yaml'), '"a": "role:x"\n"b": "role:w"\n')
    # reload in this thread with pause at k-th line event; decider in other thread
    count = [0]; result = {}
    TOOL = 3
    def decide():
        result['mid'] = e.enforce('a', {}, dict(creds))
    me = threading.get_ident()
    def on_line(code, line):
        if threading.get_ident() != me: return
        if not code.co_filename.startswith(PKG): return sys.monitoring.DISABLE
        count[0]+=1
        if count[0]==k:
            t = threading.Thread(target=decide); t.start(); t.join()
    sys.monitoring.use_tool_id(TOOL,'p7')
    sys.monitoring.register_callback(TOOL, sys.monitoring.events.LINE, on_line)
    sys.monitoring.set_events(TOOL, sys.monitoring.events.LINE)
    try:
        e.load_rules()
    finally:
        sys.monitoring.set_events(TOOL, 0); sys.monitoring.free_tool_id(TOOL)
    new = e.enforce('a', {}, dict(creds))
    return old, result.get('mid'), new, count[0]

t0=time.time()
old, mid, new, n = scenario(10**9)
print('line events in reload:', n, 'old', old, 'new', new)
viol = []
for k in range(1, n+1):
    o, m, nw, _ = scenario(k)
    if m is not None and m not in (o, nw): viol.append(k)
print('violating k:', len(viol), viol[:5], viol[-5:], 'time', time.time()-t0)
