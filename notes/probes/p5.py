import logging, os, tempfile, sys, io, json, contextlib, warnings
logging.disable(logging.CRITICAL)
warnings.simplefilter('ignore')
from unittest import mock
import stevedore
from oslo_policy import _parser, _checks, policy, opts, generator, shell
from oslo_config import cfg

def mgr_for(objs_by_name):
    exts = [stevedore.extension.Extension(name=n, entry_point=None, plugin=None, obj=o) for n, o in objs_by_name.items()]
    return stevedore.named.NamedExtensionManager.make_test_instance(extensions=exts, namespace=list(objs_by_name))

def mkenf(main, dirfiles, defaults):
    d = tempfile.mkdtemp(dir='/tmp/probe')
    conf = cfg.ConfigOpts(); conf([], default_config_dirs=[], default_config_files=[])
    opts._register(conf)
    conf.set_override('policy_file', os.path.join(d,'policy.yaml'), group='oslo_policy')
    conf.set_override('policy_dirs', [os.path.join(d,'policy.d')], group='oslo_policy')
    os.mkdir(os.path.join(d,'policy.d'))
    if main is not None: open(os.path.join(d,'policy.yaml'),'w').write(main)
    for n, t in dirfiles.items(): open(os.path.join(d,'policy.d',n),'w').write(t)
    e = policy.Enforcer(conf); e.register_defaults(defaults)
    return e, d

defs = [policy.RuleDefault('a:x', 'role:a or role:b'), policy.RuleDefault('b:x', 'role:b'), policy.RuleDefault('c:x', "'q':%(t)s")]
e, d = mkenf(json.dumps({'a:x': [['role:a'], ['role:b']], 'u:x': '"dq":%(t)s'}), {'1.yaml': '"b:x": "(role:b)"\n'}, defs)
out = io.StringIO()
with mock.patch('stevedore.named.NamedExtensionManager', return_value=mgr_for({'ns': e})), contextlib.redirect_stdout(out):
    generator._generate_policy('ns')
print('--- generate_policy'); print(out.getvalue())
out = io.StringIO()
with mock.patch('stevedore.named.NamedExtensionManager', return_value=mgr_for({'ns': e})), contextlib.redirect_stdout(out):
    generator._list_redundant('ns')
print('--- list_redundant'); print(out.getvalue())

# checker drift
d = tempfile.mkdtemp(dir='/tmp/probe')
pol = os.path.join(d, 'p.yaml'); open(pol,'w').write('"a:x": "system:all"\n"b:x": "system_scope:all"\n"c:x": "rule:nope"\n')
tok = {'token': {'roles': [{'name': 'r'}], 'user': {'id': 'u1'}, 'system': {'all': True}}}
acc = os.path.join(d, 'a.json'); open(acc,'w').write(json.dumps(tok))
out = io.StringIO()
with contextlib.redirect_stdout(out):
    shell.tool(pol, acc, None)
print('--- checker'); print(out.getvalue())
try:
    shell.tool(pol, acc, 'zzz')
except Exception as ex:
    print('requested unknown rule RAISES', type(ex).__name__, ex)
conf = cfg.ConfigOpts(); conf([], default_config_dirs=[], default_config_files=[])
en = policy.Enforcer(conf, policy_file=pol)
creds = dict(tok['token']); creds['roles']=['r']; creds['user_id']='u1'; creds['system_scope']='all'; creds['is_admin']=False
for n in ['a:x','b:x','c:x']:
    print(n, en.enforce(n, {'user_id':'u1'}, dict(creds)))
