# prototype C10 differential: long-lived enforcer vs fresh enforcer after every fs op
import logging, os, tempfile, sys, json, random, shutil, warnings, itertools, traceback
logging.disable(logging.CRITICAL); warnings.simplefilter('ignore')
from oslo_policy import policy, opts
from oslo_config import cfg
import oslo_policy; print(oslo_policy.__file__)
NAMES = ['n1','n2','n3','old1','new1']
ROLES = ['a','b','c','d','o','n']
def mkconf(d):
    conf = cfg.ConfigOpts(); conf([], default_config_dirs=[], default_config_files=[])
    opts._register(conf)
    conf.set_override('policy_file', os.path.join(d,'policy.yaml'), group='oslo_policy')
    conf.set_override('policy_dirs', [os.path.join(d,'d1'), os.path.join(d,'d2')], group='oslo_policy')
    return conf
def defaults(kind):
    if kind == 0: return []
    ds = [policy.RuleDefault('n1','role:d'), policy.RuleDefault('n3', 'role:d or role:a')]
    if kind == 2:
        dep = policy.DeprecatedRule('old1','role:o',deprecated_reason='r',deprecated_since='s')
        ds.append(policy.RuleDefault('new1','role:n',deprecated_rule=dep))
    return ds
def decisions(e):
    out = {}
    for n in NAMES:
        for r in ROLES:
            try: out[(n,r)] = bool(e.enforce(n, {}, {'roles':[r]}))
            except Exception as ex: out[(n,r)] = 'EXC:'+type(ex).__name__
    return out
def run(seed, steps, flag):
    rnd = random.Random(seed)
    d = tempfile.mkdtemp(dir='/tmp/probe'); os.mkdir(d+'/d1'); os.mkdir(d+'/d2')
    files = [d+'/policy.yaml', d+'/d1/a.yaml', d+'/d1/b.yaml', d+'/d2/a.yaml']
    clock = [1_000_000_000]
    for dd in (d+'/d1', d+'/d2'): os.utime(dd,(clock[0],clock[0]))
    def stamp(p):
        clock[0]+=5
        if os.path.exists(p): os.utime(p,(clock[0],clock[0]))
        os.utime(os.path.dirname(p),(clock[0],clock[0]))
    def content():
        k = rnd.sample(NAMES, rnd.randint(0,3))
        return json.dumps({n: 'role:'+rnd.choice(ROLES[:3]) if (rnd.random()<0.8 or n!='old1') else 'rule:new1' for n in k}) if rnd.random()<0.5 else ''.join('"%s": "role:%s"\n' % (n, rnd.choice(ROLES[:3])) for n in k)
    kind = rnd.randint(0,2)
    conf = mkconf(d); conf.set_override('enforce_new_defaults', flag, group='oslo_policy')
    if rnd.random()<0.5:
        open(files[0],'w').write(content()); stamp(files[0])
    E = policy.Enforcer(conf); E.register_defaults(defaults(kind))
    hist = []
    try:
        for i in range(steps):
            op = rnd.choice(['write','write','empty','touch','delete','load','enforce'])
            f = rnd.choice(files)
            hist.append((op, os.path.relpath(f,d)))
            if op=='write': open(f,'w').write(content()); stamp(f)
            elif op=='empty': open(f,'w').write(''); stamp(f)
            elif op=='touch':
                if os.path.exists(f): stamp(f)
            elif op=='delete':
                if os.path.exists(f): os.unlink(f); stamp(f)
            elif op=='load': E.load_rules()
            got = decisions(E)
            F = policy.Enforcer(mkconf(d)); F.conf.set_override('enforce_new_defaults', flag, group='oslo_policy'); F.register_defaults(defaults(kind))
            exp = decisions(F)
            if got != exp:
                diff = {k:(got[k],exp[k]) for k in got if got[k]!=exp[k]}
                return (seed, kind, hist, diff)
    finally:
        shutil.rmtree(d)
    return None
bad = 0
for seed in range(int(sys.argv[1]), int(sys.argv[2])):
    r = run(seed, 25, seed%2==0)
    if r:
        bad += 1
        if bad <= 6: print(r)
print('bad', bad)
