import logging, os, tempfile, sys
logging.disable(logging.CRITICAL)
from oslo_policy import _parser, _checks, policy, opts
from oslo_config import cfg

def mk(rules):
    conf = cfg.ConfigOpts()
    conf([], default_config_dirs=[], default_config_files=[])
    opts._register(conf)
    conf.set_override('policy_dirs', [], group='oslo_policy')
    e = policy.Enforcer(conf, use_conf=False)
    e.set_rules(policy.Rules.from_dict(rules))
    return e

for rules in [
    {'a': 'not rule:undef'},
    {'a': 'not rule:a'},
    {'a': 'not rule:b', 'b': 'rule:a'},
    {'a': 'role:x and not (rule:b or role:y)', 'b': 'rule:a'},
    {'a': 'rule:b and rule:c', 'b': 'rule:d', 'c': 'rule:d', 'd': 'role:x'},
    {'a': 'rule:b', 'b': 'role:x or rule:b'},
    {'a': 'rule:undef', 'default': 'rule:a'},
]:
    e = mk(rules)
    print(rules, 'check_rules ->', e.check_rules())
    sys.setrecursionlimit(400)
    for n in rules:
        try:
            print('   enforce', n, e.enforce(n, {}, {'roles': []}))
        except RecursionError:
            print('   enforce', n, 'RecursionError')
