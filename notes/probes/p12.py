# prototype C20 explorer: 1- and 2-preemption schedules at oslo_policy line boundaries
import logging, os, tempfile, sys, json, threading, time, warnings, shutil, random, collections
logging.disable(logging.CRITICAL); warnings.simplefilter('ignore')
from oslo_policy import policy, opts
from oslo_config import cfg
import oslo_policy
PKG = os.path.dirname(oslo_policy.__file__)
mon = sys.monitoring; TOOL = 3
CLOCK=[1_000_000_000]
def write(p, t):
    if t is None:
        if os.path.exists(p): os.unlink(p)
    else: open(p,'w').write(t)
    CLOCK[0]+=10
    if os.path.exists(p): os.utime(p,(CLOCK[0],CLOCK[0]))
    os.utime(os.path.dirname(p),(CLOCK[0],CLOCK[0]))

SCEN = {
 'main_edit_dir_override': dict(old={'policy.yaml': {'a':'role:x'}, 'pd/1.yaml': {'a':'role:y'}}, new={'policy.yaml': {'a':'role:x','b':'role:w'}}, defaults=[('c','role:z',None)], probes=[('a',['x']),('a',['y']),('c',['z']),('b',['w'])]),
 'dir_edit': dict(old={'policy.yaml': {'a':'role:x'}, 'pd/1.yaml': {'a':'role:y'}}, new={'pd/1.yaml': {'a':'role:y','b':'role:w'}}, defaults=[('c','role:z',None)], probes=[('a',['x']),('a',['y']),('c',['z']),('b',['w'])]),
 'permissive_default': dict(old={'policy.yaml': {'default':'@','a':'role:x'}}, new={'policy.yaml': {'default':'@','a':'role:y'}}, defaults=[('c','role:z',None)], probes=[('c',[]),('c',['z']),('a',['x']),('a',['y'])]),
 'deprecated': dict(old={'policy.yaml': {'old':'role:x'}}, new={'policy.yaml': {'old':'role:x','b':'role:w'}}, defaults=[('new','role:n',('old','role:o'))], probes=[('new',['x']),('new',['n']),('new',['o'])]),
}
def build(sc, which):
    d = tempfile.mkdtemp(dir='/tmp/probe'); os.mkdir(d+'/pd'); os.utime(d+'/pd',(CLOCK[0],CLOCK[0]))
    conf = cfg.ConfigOpts(); conf([], default_config_dirs=[], default_config_files=[]); opts._register(conf)
    conf.set_override('policy_file', d+'/policy.yaml','oslo_policy'); conf.set_override('policy_dirs',[d+'/pd'],'oslo_policy')
    for f,c in sc['old'].items(): write(d+'/'+f, json.dumps(c))
    e = policy.Enforcer(conf)
    for n,cs,dep in sc['defaults']:
        dr = policy.DeprecatedRule(dep[0],dep[1],deprecated_reason='r',deprecated_since='s') if dep else None
        e.register_default(policy.RuleDefault(n,cs,deprecated_rule=dr))
    return e, d
def apply_new(sc, d):
    for f,c in sc['new'].items(): write(d+'/'+f, None if c is None else json.dumps(c))
def dec(e, probe):
    try: return bool(e.enforce(probe[0], {}, {'roles': list(probe[1])}))
    except Exception as ex: return 'EXC:%s:%s' % (type(ex).__name__, str(ex)[:40])

def run_schedule(sc, pX, pY, k1, k2):
    """X runs to its k1-th lib line, Y runs to its k2-th (or completion if None), X completes, Y completes."""
    e, d = build(sc, 'old')
    old = {p: dec(e, p) for p in map(lambda q:(q[0],tuple(q[1])), sc['probes'])}
    apply_new(sc, d)
    res = {}; counts = {'X':0,'Y':0}
    ids = {}
    y_paused = threading.Event(); y_resume = threading.Event(); y_done = threading.Event()
    ythread = [None]
    def runY():
        ids[threading.get_ident()]='Y'
        res['Y'] = dec(e, pY); y_done.set(); y_paused.set()
    def on_line(code, line):
        if not code.co_filename.startswith(PKG): return mon.DISABLE
        who = ids.get(threading.get_ident())
        if who is None: return
        counts[who]+=1
        if who=='X' and counts['X']==k1:
            t = threading.Thread(target=runY); ythread[0]=t; t.start()
            y_paused.wait()
        elif who=='Y' and k2 is not None and counts['Y']==k2:
            y_paused.set(); y_resume.wait()
    mon.use_tool_id(TOOL,'p12'); mon.register_callback(TOOL, mon.events.LINE, on_line); mon.set_events(TOOL, mon.events.LINE)
    try:
        mon.restart_events()
        ids[threading.get_ident()]='X'
        res['X'] = dec(e, pX)
        del ids[threading.get_ident()]
        y_resume.set()
        if ythread[0]: ythread[0].join()
    finally:
        mon.set_events(TOOL,0); mon.free_tool_id(TOOL)
    new = {p: dec(e, p) for p in old}
    fresh_e, d2 = None, None
    shutil.rmtree(d)
    return old, res, new, counts

if __name__=='__main__':
    name = sys.argv[1]; sc = SCEN[name]; mode=sys.argv[2]
    probes=[(p[0],tuple(p[1])) for p in sc['probes']]
    # calibrate
    old,res,new,counts = run_schedule(sc, probes[0], probes[0], 10**9, None)
    n = counts['X']; print('events', n, 'old', old, 'new', new)
    classes = collections.Counter(); total=0; t0=time.time()
    if mode=='one':
        for pX in probes[:1]:
          for pY in probes:
            for k in range(1,n+1):
                old,res,new,_ = run_schedule(sc, pX, pY, k, None)
                total+=1
                for who,p in (('X',pX),('Y',pY)):
                    r = res.get(who)
                    if r is not None and r not in (old[p], new[p]): classes[(who,p,r,old[p],new[p])]+=1
    else:
        rnd=random.Random(1)
        for i in range(int(sys.argv[3])):
            pX=rnd.choice(probes); pY=rnd.choice(probes); k1=rnd.randint(1,n); k2=rnd.randint(1,n)
            old,res,new,_ = run_schedule(sc, pX, pY, k1, k2)
            total+=1
            for who,p in (('X',pX),('Y',pY)):
                r = res.get(who)
                if r is not None and r not in (old[p], new[p]): classes[(who,p,r,old[p],new[p])]+=1
            # persistent corruption?
            exp = new
    print('schedules', total, 'time', round(time.time()-t0,1))
    for k,v in classes.most_common(): print(v, k)
