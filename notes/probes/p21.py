# prototype C06 (reference eval, inlining, current_rule) and C12 (idempotence, shared objects)
import logging, os, tempfile, sys, json, random, shutil, warnings, copy
logging.disable(logging.CRITICAL); warnings.simplefilter('ignore')
from oslo_policy import policy, opts, _checks, _parser
from oslo_config import cfg
import oslo_policy; print(oslo_policy.__file__)
rnd=random.Random(9)
conf=cfg.ConfigOpts(); conf([],default_config_dirs=[],default_config_files=[])
seen_cr=[]
class Rec(_checks.Check):
    def __call__(self,t,c,e,current_rule=None):
        seen_cr.append(current_rule); return self.match in c['roles']
class Rec3(_checks.Check):
    def __call__(self,t,c,e): return self.match in c['roles']
policy.register('rec',Rec); policy.register('rec3',Rec3)
ROLES=['a','b','c']
SUBS=[[r for i,r in enumerate(ROLES) if m>>i&1] for m in range(8)]
def gen(depth,leaves):
    r=rnd.random()
    if depth<=0 or r<0.35: return ('leaf',rnd.choice(leaves))
    if r<0.5: return ('not',gen(depth-1,leaves))
    return (rnd.choice(['and','or']),[gen(depth-1,leaves) for _ in range(rnd.randint(2,3))])
def render(a,inl=None):
    if a[0]=='leaf':
        if inl and a[1]==inl[0]: return '( '+inl[1]+' )'
        return a[1]
    if a[0]=='not': return 'not '+render(a[1],inl)
    return '('+(' %s '%a[0]).join(render(x,inl) for x in a[1])+')'
def ev(a,rules,default,roles,depth=0):
    if a[0]=='leaf':
        t=a[1]
        if t=='@': return True
        if t=='!': return False
        k,m=t.split(':',1)
        if k in('role','rec','rec3'): return m in roles
        if k=='rule':
            if m in rules: return ev(rules[m],rules,default,roles)
            if default and default in rules: return ev(rules[default],rules,default,roles)
            return False
    if a[0]=='not': return not ev(a[1],rules,default,roles)
    if a[0]=='and': return all(ev(x,rules,default,roles) for x in a[1])
    return any(ev(x,rules,default,roles) for x in a[1])
bad=0;n=0
for it in range(1500):
    k=rnd.randint(2,7); names=['n%d'%i for i in range(k)]
    hasdef=rnd.random()<0.5
    rules={}
    for i,nm in enumerate(names):
        lower=['rule:'+x for x in names[:i]]
        leaves=['role:a','role:b','rec:c','rec3:a','@','!']+lower*2
        if i>=1 or not hasdef: leaves+=['rule:ghost'] if (not hasdef or i>=1) else []
        rules[nm]=gen(rnd.randint(0,3),leaves)
    default=None
    if hasdef:
        default='default'; rules_d=dict(rules); 
        # default is lowest: no refs
        rules={'default':gen(1,['role:a','role:b','@','!'])}; rules.update(rules_d)
    E=policy.Enforcer(conf,use_conf=False,default_rule=default or 'nodefault'); E.set_rules(policy.Rules.from_dict({x:render(a) for x,a in rules.items()}, default or 'nodefault'))
    for nm in rules:
        for roles in SUBS:
            del seen_cr[:]
            got=bool(E.enforce(nm,{},{'roles':roles})); exp=ev(rules[nm],rules,default,roles); n+=1
            if got!=exp: bad+=1; print('C06 REF BAD',nm,roles,got,exp,{x:render(a) for x,a in rules.items()}) if bad<4 else None
            if any(c!=nm for c in seen_cr): bad+=1; print('C06 CURRENT_RULE BAD',nm,seen_cr)
    # inline one reference
    cands=[(nm,x) for nm in rules for x in names if 'rule:'+x in render(rules[nm])]
    if cands:
        nm,x=rnd.choice(cands)
        txt=render(rules[nm],('rule:'+x,render(rules[x])))
        E2=policy.Enforcer(conf,use_conf=False,default_rule=default or 'nodefault'); r2={y:render(a) for y,a in rules.items()}; r2[nm]=txt
        E2.set_rules(policy.Rules.from_dict(r2, default or 'nodefault'))
        for roles in SUBS:
            if bool(E.enforce(nm,{},{'roles':roles}))!=bool(E2.enforce(nm,{},{'roles':roles})): bad+=1; print('C06 INLINE BAD')
print('C06 decisions',n,'bad',bad)
del _checks.registered_checks['rec']; del _checks.registered_checks['rec3']

# C12
bad=0;steps=0
def snap(ds):
    out=[]
    for d in ds:
        dr=d.deprecated_rule
        out.append((d.name,d.check_str,str(d.check),d.description,d.scope_types,d.deprecated_for_removal,d.deprecated_reason,d.deprecated_since, (dr.name,dr.check_str,str(dr.check),dr.deprecated_reason,dr.deprecated_since) if dr else None))
    return out
for it in range(150):
    dep=policy.DeprecatedRule('old','role:o',deprecated_reason='r',deprecated_since='s')
    dep2=policy.DeprecatedRule('same','role:o',deprecated_reason='r',deprecated_since='s')
    shared=[policy.RuleDefault('new','role:n',deprecated_rule=dep),policy.RuleDefault('same','role:n2',deprecated_rule=dep2),policy.RuleDefault('plain','role:p or role:q')]
    s0=snap(shared)
    ens=[]
    for i in range(rnd.randint(1,3)):
        d=tempfile.mkdtemp(dir='/tmp/probe')
        c=cfg.ConfigOpts(); c([],default_config_dirs=[],default_config_files=[]); opts._register(c)
        c.set_override('policy_file',d+'/policy.yaml','oslo_policy'); c.set_override('policy_dirs',[],'oslo_policy'); c.set_override('enforce_new_defaults',rnd.random()<0.5,'oslo_policy')
        E=policy.Enforcer(c); E.register_defaults(shared); ens.append([E,d,c,1_000_000_000])
    def writef(en):
        content={nm:'role:'+rnd.choice('xyz') for nm in rnd.sample(['new','old','same','plain','extra'],rnd.randint(0,3))}
        open(en[1]+'/policy.yaml','w').write(json.dumps(content)); en[3]+=7; os.utime(en[1]+'/policy.yaml',(en[3],en[3]))
    for en in ens:
        if rnd.random()<0.7: writef(en)
    for st in range(rnd.randint(3,15)):
        en=rnd.choice(ens); op=rnd.choice(['load','force','enforce','edit'])
        if op=='load': en[0].load_rules()
        elif op=='force': en[0].load_rules(force_reload=True)
        elif op=='enforce': en[0].enforce(rnd.choice(['new','same','plain','zz']),{},{'roles':[rnd.choice('xyzno')]})
        else: writef(en)
        steps+=1
        if snap(shared)!=s0: bad+=1; print('C12 SHARED MUTATED')
        for E,d,c,_ in ens:
            E.load_rules()
            F=policy.Enforcer(c); F.register_defaults([policy.RuleDefault('new','role:n',deprecated_rule=policy.DeprecatedRule('old','role:o',deprecated_reason='r',deprecated_since='s')),policy.RuleDefault('same','role:n2',deprecated_rule=policy.DeprecatedRule('same','role:o',deprecated_reason='r',deprecated_since='s')),policy.RuleDefault('plain','role:p or role:q')]); F.load_rules()
            a={k:str(v) for k,v in E.rules.items()}; b={k:str(v) for k,v in F.rules.items()}
            if a!=b: bad+=1; print('C12 DIFF',a,b) if bad<4 else None
    for en in ens: shutil.rmtree(en[1])
print('C12 steps',steps,'bad',bad)
