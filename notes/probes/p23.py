# prototype: C01 lexical variants + C02 random strings via independent tokenizer/recogniser
import logging, sys, random, warnings, re, unicodedata
logging.disable(logging.CRITICAL); warnings.simplefilter('ignore')
from oslo_policy import policy
from oslo_config import cfg
import oslo_policy; print(oslo_policy.__file__)
rnd=random.Random(21)
conf=cfg.ConfigOpts(); conf([],default_config_dirs=[],default_config_files=[])
def gen(depth,k):
    r=rnd.random()
    if depth<=0 or r<0.3: return ('leaf',rnd.randrange(k)) if rnd.random()<0.9 else ('const',rnd.random()<0.5)
    if r<0.45: return ('not',gen(depth-1,k))
    return (rnd.choice(['and','or']),[gen(depth-1,k) for _ in range(rnd.randint(2,4))])
PREC={'or':1,'and':2,'not':3,'leaf':4,'const':4}
def toks(a,parent=0,extra=0.2):
    t=a[0]
    if t=='leaf': out=['role:r%d'%a[1]]
    elif t=='const': out=['@' if a[1] else '!']
    elif t=='not': out=['not']+toks(a[1],3)
    else:
        out=[]
        for i,x in enumerate(a[1]):
            if i: out.append(t)
            # children of same op must be parenthesised to keep n-ary flattening irrelevant (semantics same anyway)
            out+=toks(x,PREC[t]+ (0 if x[0]!=t else 0))
    need = PREC[t] < parent
    if need or rnd.random()<extra:
        out=['(']+out+[')']
        while rnd.random()<0.15: out=['(']+out+[')']
    return out
def spell(ts):
    s=''; prev=None
    for i,t in enumerate(ts):
        if t in('and','or','not'): w=''.join(c.upper() if rnd.random()<0.5 else c for c in t)
        else: w=t
        glue=False
        if prev is not None:
            # glue '(' to following check / '(' ; glue ')' to preceding check / ')'
            if prev=='(' and (t=='(' or ':' in t or t in '@!'): glue=rnd.random()<0.6
            if t==')' and (prev==')' or ':' in prev or prev in '@!'): glue=rnd.random()<0.6
        if prev is not None and not glue: s+=rnd.choice([' ','  ','\t','\n',' \t '])
        s+=w; prev=t
    if rnd.random()<0.3: s=' '+s+'\n'
    return s
def ev(a,truth):
    t=a[0]
    if t=='leaf': return truth[a[1]]
    if t=='const': return a[1]
    if t=='not': return not ev(a[1],truth)
    return (all if t=='and' else any)(ev(x,truth) for x in a[1])
bad=0;n=0
for it in range(3000):
    k=rnd.randint(1,5); a=gen(rnd.randint(0,5),k)
    E=policy.Enforcer(conf,use_conf=False)
    for v in range(5):
        txt=spell(toks(a))
        E.set_rules(policy.Rules.from_dict({'p':txt}))
        for m in range(2**k):
            truth=[bool(m>>i&1) for i in range(k)]
            got=bool(E.enforce('p',{},{'roles':['r%d'%i for i in range(k) if truth[i]]})); n+=1
            if got!=ev(a,truth):
                bad+=1
                if bad<5: print('C01 VARIANT BAD',repr(txt),truth,got)
                break
print('C01 variant decisions',n,'bad',bad)

# C02 random strings
def ref_tokens(s):
    out=[]
    for tok in s.split():
        clean=tok.lstrip('(')
        out+=['(']*(len(tok)-len(clean))
        if not clean: continue
        tok=clean; clean=tok.rstrip(')'); trail=len(tok)-len(clean)
        low=clean.lower()
        if low in('and','or','not'): out.append(low)
        elif clean:
            if len(tok)>=2 and (tok[0],tok[-1]) in (('"','"'),("'","'")): out.append('STR')
            else: out.append(('leaf',clean))
        out+=[')']*trail
    return out
def parse_ref(toks):
    pos=[0]
    def peek(): return toks[pos[0]] if pos[0]<len(toks) else None
    def eat(): pos[0]+=1
    def expr():
        items=[and_()]
        while peek()=='or': eat(); items.append(and_())
        return items[0] if len(items)==1 else ('or',items)
    def and_():
        items=[not_()]
        while peek()=='and': eat(); items.append(not_())
        return items[0] if len(items)==1 else ('and',items)
    def not_():
        if peek()=='not': eat(); return ('not',not_())
        return atom()
    def atom():
        t=peek()
        if t=='(':
            eat(); e=expr()
            if peek()!=')': raise SyntaxError
            eat(); return e
        if isinstance(t,tuple): eat(); return t
        raise SyntaxError
    e=expr()
    if pos[0]!=len(toks): raise SyntaxError
    return e
def evl(a,roles):
    if a[0]=='leaf':
        t=a[1]
        if t=='@': return True
        if t=='!': return False
        if ':' not in t: return False
        k,m=t.split(':',1)
        if k=='role': return m.lower() in roles
        return None
    if a[0]=='not':
        v=evl(a[1],roles); return None if v is None else not v
    vs=[evl(x,roles) for x in a[1]]
    if any(v is None for v in vs): return None
    return all(vs) if a[0]=='and' else any(vs)
ALPH=['role:a','role:b','role:a','@','!','and','or','not','AND','Not','(',')','((','))','(role:a','role:b)','"q"',"'q'",'"','junk','ro le',' ','  ','\t','\n',' ',' ','　','\x1c','\x0b','（','）','role:a)','(@)','é',':','::','a:','not(','(not','and)','or(']
bad=0;n=0;acc=0;rej=0
for it in range(60000):
    s=''.join(rnd.choice(ALPH)+rnd.choice(['',' ',' ']) for _ in range(rnd.randint(1,7)))
    if not s: continue
    try: ast=parse_ref(ref_tokens(s))
    except (SyntaxError,IndexError): ast=None
    E=policy.Enforcer(conf,use_conf=False)
    try: E.set_rules(policy.Rules.from_dict({'p':s}))
    except Exception as ex: bad+=1; print('LOAD RAISES',repr(s),ex); continue
    for roles in ([],['a'],['b'],['a','b']):
        try: got=E.enforce('p',{},{'roles':roles,'is_admin':True})
        except Exception as ex: got='EXC:'+type(ex).__name__
        n+=1
        if ast is None:
            if got is not False:
                bad+=1
                if bad<8: print('C02 REJ BAD',repr(s),roles,got)
                break
        else:
            exp=evl(ast,roles)
            if exp is None: break
            if bool(got)!=exp or isinstance(got,str):
                bad+=1
                if bad<8: print('C02 ACC BAD',repr(s),roles,got,exp)
                break
    if ast is None: rej+=1
    else: acc+=1
print('C02 random strings: accepted',acc,'rejected',rej,'decisions',n,'bad',bad)
