# prototype C11 table
import logging, os, tempfile, sys, json, random, shutil, warnings, itertools
logging.disable(logging.CRITICAL); warnings.simplefilter('ignore')
from oslo_policy import policy, opts
from oslo_config import cfg
import oslo_policy; print(oslo_policy.__file__)
ROLES=['a','b','c','d']
EXPRS=['role:a','role:b','role:a or role:b','role:a and role:b','not role:c','role:c or (role:a and not role:b)','@','!','role:d']
def ev(txt, roles):
    # tiny evaluator through real parser is not independent; use python eval on a translation
    import re
    py = re.sub(r'role:(\w)', lambda m: str(m.group(1) in roles), txt).replace('@','True').replace('!','False')
    return eval(py)
subsets=[ [r for i,r in enumerate(ROLES) if m>>i&1] for m in range(16)]
bad=0; n=0
rnd=random.Random(int(sys.argv[1]))
for it in range(int(sys.argv[2])):
    renamed = rnd.random()<0.6
    newdef = rnd.choice(EXPRS); olddef = rnd.choice(EXPRS) if rnd.random()<0.8 else newdef
    flag = rnd.random()<0.5
    new_ov = rnd.choice([None,None]+EXPRS)
    old_ov = rnd.choice([None,None,'ALIAS']+EXPRS) if renamed else None
    loc_new = rnd.choice(['main','dir']); loc_old = rnd.choice(['main','dir'])
    d=tempfile.mkdtemp(dir='/tmp/probe'); os.mkdir(d+'/pd')
    conf=cfg.ConfigOpts(); conf([],default_config_dirs=[],default_config_files=[]); opts._register(conf)
    conf.set_override('policy_file', d+'/policy.yaml','oslo_policy'); conf.set_override('policy_dirs',[d+'/pd'],'oslo_policy')
    conf.set_override('enforce_new_defaults', flag, 'oslo_policy')
    oldname = 'svc:old' if renamed else 'svc:new'
    main={}; dirf={}
    if new_ov is not None: (main if loc_new=='main' else dirf)['svc:new']=new_ov
    if old_ov is not None: (main if loc_old=='main' else dirf)[oldname]=('rule:svc:new' if old_ov=='ALIAS' else old_ov)
    if main or rnd.random()<0.5: open(d+'/policy.yaml','w').write(json.dumps(main))
    if dirf: open(d+'/pd/x.yaml','w').write(json.dumps(dirf))
    dep=policy.DeprecatedRule(oldname, olddef, deprecated_reason='r', deprecated_since='s')
    E=policy.Enforcer(conf); E.register_default(policy.RuleDefault('svc:new', newdef, deprecated_rule=dep))
    if old_ov is not None and old_ov!='ALIAS' and old_ov==olddef and new_ov is None:
        shutil.rmtree(d); continue
    for roles in subsets:
        if new_ov is not None: exp=ev(new_ov, roles)
        elif old_ov is not None and old_ov!='ALIAS': exp=ev(old_ov, roles)
        else:
            exp=ev(newdef, roles) or ((not flag) and newdef!=olddef and ev(olddef, roles))
        got=bool(E.enforce('svc:new',{}, {'roles':roles}))
        n+=1
        if got!=exp:
            bad+=1
            if bad<8: print('BAD', dict(renamed=renamed,newdef=newdef,olddef=olddef,flag=flag,new_ov=new_ov,old_ov=old_ov,loc_new=loc_new,loc_old=loc_old), roles, got, exp)
            break
    shutil.rmtree(d)
print('n',n,'bad',bad)
