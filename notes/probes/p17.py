# prototype C19: checker vs library
import logging, os, tempfile, sys, json, random, shutil, warnings, io, contextlib, copy
logging.disable(logging.CRITICAL); warnings.simplefilter('ignore')
from oslo_policy import policy, opts, shell
from oslo_config import cfg
import oslo_policy; print(oslo_policy.__file__)
rnd=random.Random(11)
def gen(depth, leaves):
    r=rnd.random()
    if depth<=0 or r<0.35: return rnd.choice(leaves)
    if r<0.5: return 'not '+gen(depth-1,leaves)
    return '('+(' %s '%rnd.choice(['and','or'])).join(gen(depth-1,leaves) for _ in range(rnd.randint(2,3)))+')'
def flatten(d, pk=''):
    out={}
    for k,v in d.items():
        nk=pk+'.'+k if pk else k
        if isinstance(v,dict): out.update(flatten(v,nk))
        else: out[nk]=v
    return out
bad=0;n=0
samples=[json.load(open('/repo/sample_data/'+f)) for f in os.listdir('/repo/sample_data')]
for it in range(int(sys.argv[1])):
    d=tempfile.mkdtemp(dir='/tmp/probe')
    scope=rnd.choice(['project','domain','system'])
    roles=rnd.sample(['admin','member','reader','x'], rnd.randint(0,3))
    tok={'token':{'roles':[{'id':'i','name':r} for r in roles],'user':{'id':'u1','name':'n','domain':{'id':'default'}}}}
    if scope=='project': tok['token']['project']={'id':'p1','name':'pn','domain':{'id':'dd'}}
    if scope=='domain': tok['token']['domain']={'id':'d1'}
    if scope=='system': tok['token']['system']={'all':True}
    if rnd.random()<0.3: tok=copy.deepcopy(rnd.choice(samples))
    names=['svc:a','svc:b','helper','svc:c','other:x']
    leaves=['role:admin','role:member','role:x','user_id:%(user_id)s','project_id:%(project_id)s','is_admin:True','system_scope:all','system:all','system.all:True','project.id:%(project_id)s','domain.id:d1','rule:helper','rule:svc:a','rule:ghost','@','!','user.domain.id:%(a.b)s','roles:admin']
    rules={}
    for i,nme in enumerate(names):
        if rnd.random()<0.8:
            lv=[l for l in leaves if not l.startswith('rule:')] + (['rule:helper','rule:ghost'] if nme!='helper' else ['rule:ghost'])
            rules[nme]=gen(rnd.randint(0,3), lv)
    if rnd.random()<0.5: rules['default']=gen(1,[l for l in leaves if not l.startswith('rule:')])
    open(d+'/p.json','w').write(json.dumps(rules))
    open(d+'/a.json','w').write(json.dumps(tok))
    tfile=None
    if rnd.random()<0.5:
        tgt={'user_id':rnd.choice(['u1','u2']),'project_id':rnd.choice(['p1','p2']),'a':{'b':'default','c':{'d':1}}}
        open(d+'/t.json','w').write(json.dumps(tgt)); tfile=d+'/t.json'
    is_admin=rnd.random()<0.5
    req=rnd.choice([None,None,'svc:a','ghost:x','helper'])
    out=io.StringIO()
    try:
        with contextlib.redirect_stdout(out): shell.tool(d+'/p.json', d+'/a.json', req, is_admin, tfile)
    except Exception as ex:
        bad+=1; print('TOOL RAISES',type(ex).__name__,ex,req,rules); shutil.rmtree(d); continue
    # derive
    t=copy.deepcopy(tok['token']); creds=t
    creds['roles']=[r['name'] for r in t['roles']]; creds['user_id']=t['user']['id']
    if t.get('project'): creds['project_id']=t['project']['id']
    if t.get('system'): creds['system_scope']='all'
    creds['is_admin']=is_admin
    if tfile: target=flatten(tgt)
    else:
        target={'user_id':t['user']['id']}
        if creds.get('project_id'): target['project_id']=creds['project_id']
    conf=cfg.ConfigOpts(); conf([],default_config_dirs=[],default_config_files=[]); opts._register(conf); conf.set_override('policy_dirs',[],'oslo_policy')
    E=policy.Enforcer(conf, policy_file=d+'/p.json')
    exp=[]
    keys=[req] if req else sorted(k for k in rules if ':' in k)
    for k in keys:
        try: r=E.enforce(k, dict(target), copy.deepcopy(creds))
        except Exception as ex: r='EXC'
        exp.append(('passed: %s' if r else 'failed: %s') % k if r!='EXC' else 'EXC')
    got=[l for l in out.getvalue().splitlines()]
    n+=1
    if got!=exp:
        bad+=1
        if bad<6: print('DIFF', got, exp, rules, scope, req)
    shutil.rmtree(d)
print('cases',n,'bad',bad)
