# prototype C05 (independent reference walk) + C04 (abstract letters)
import logging, sys, random, warnings, re
logging.disable(logging.CRITICAL); warnings.simplefilter('ignore')
from oslo_policy import policy
from oslo_config import cfg
import oslo_policy; print(oslo_policy.__file__)
rnd=random.Random(13)
conf=cfg.ConfigOpts(); conf([],default_config_dirs=[],default_config_files=[])
KEYS=['a','b','c','d','x1','_y']
SCAL=[None,True,False,0,1,-3,1.5,2.0,'','s','APPLES','1','True','None','1.5',"['s']","{'a': 1}"]
def gv(depth,listdepth=0):
    r=rnd.random()
    if depth<=0 or r<0.3: return rnd.choice(SCAL)
    if r<0.65: return {k:gv(depth-1) for k in rnd.sample(KEYS,rnd.randint(0,3))}
    return [gv(depth-1,listdepth+1) for _ in range(rnd.randint(0,3))]
UNC=object()
def walk(v,segs,match):
    if not segs: return match==str(v)
    if not isinstance(v,dict): return False
    if segs[0] not in v: return False
    nv=v[segs[0]]; rest=segs[1:]
    if isinstance(nv,list):
        res=[]
        for e in nv:
            if isinstance(e,list) and rest: return UNC   # open corner
            res.append(walk(e,rest,match))
        if any(r is UNC for r in res): return UNC
        return any(res)
    return walk(nv,rest,match)
LIT=[("'spam'",'spam'),('"spam"','spam'),('1','1'),('-3','-3'),('1.5','1.5'),('2.0','2.0'),('True','True'),('False','False'),('None','None'),('1.50','1.5'),('007x',None)]
bad=0;n=0;unc=0;nontriv=0
for it in range(40000):
    creds=gv(4) 
    if not isinstance(creds,dict): creds={'a':creds}
    creds['roles']=[]
    tgt={k:rnd.choice(SCAL) for k in rnd.sample(['t1','t2'],rnd.randint(0,2))}
    rhs=rnd.choice(['s','APPLES','1','True','None','1.5','%(t1)s','%(t2)s','p%(t1)s',"['s']","{'a': 1}",''])
    if rnd.random()<0.3:
        lhs,val=rnd.choice(LIT[:-1]); mode='lit'
    else:
        lhs='.'.join(rnd.choice(KEYS) for _ in range(rnd.randint(1,4))); mode='path'
    if rhs=='' : continue
    E=policy.Enforcer(conf,use_conf=False); E.set_rules(policy.Rules.from_dict({'p':'%s:%s'%(lhs,rhs)}))
    # reference
    m=re.findall(r'%\((\w+)\)s',rhs)
    if any(k not in tgt for k in m): exp=False
    else:
        match=rhs
        for k in m: match=match.replace('%%(%s)s'%k,str(tgt[k]))
        exp=(match==val) if mode=='lit' else walk(creds,lhs.split('.'),match)
    try: got=bool(E.enforce('p',tgt,creds))
    except Exception as ex: got='EXC:'+type(ex).__name__
    n+=1
    if exp is UNC:
        unc+=1
        if isinstance(got,str): bad+=1; print('RAISE in open corner',lhs,creds)
        continue
    if exp: nontriv+=1
    if got!=exp:
        bad+=1
        if bad<6: print('C05 BAD',lhs,rhs,tgt,creds,got,exp)
print('C05 cases',n,'allow-cases',nontriv,'unconstrained',unc,'bad',bad)

# C04
PAIRS=[(c.lower(),c.upper()) for c in 'abcxyz']+[('é','É'),('ü','Ü'),('ж','Ж'),('ω','Ω'),('ñ','Ñ')]
NOCASE=list('0123456789_-.:/@+=')
def mkrole():
    ids=[];s=''
    for _ in range(rnd.randint(1,6)):
        if rnd.random()<0.75:
            i=rnd.randrange(len(PAIRS)); c=rnd.randint(0,1); ids.append(('L',i)); s+=PAIRS[i][c]
        else:
            ch=rnd.choice(NOCASE); ids.append(('N',ch)); s+=ch
    return s,tuple(ids)
bad=0;n=0;allow=0
for it in range(40000):
    pool=[mkrole() for _ in range(4)]
    def variant(r):
        s=''.join((PAIRS[i[1]][rnd.randint(0,1)] if i[0]=='L' else i[1]) for i in r[1]); return (s,r[1])
    roles=[variant(rnd.choice(pool)) for _ in range(rnd.randint(0,4))]
    x=variant(rnd.choice(pool))
    form=rnd.choice(['lit','ph','pre','missing'])
    creds={'roles':[r[0] for r in roles]} if rnd.random()<0.9 else {}
    if form=='lit': rule='role:'+x[0]; tgt={}; xid=x[1]
    elif form=='ph': rule='role:%(k)s'; tgt={'k':x[0]}; xid=x[1]
    elif form=='pre':
        p=variant(rnd.choice(pool)); rule='role:'+p[0]+'%(k)s'; tgt={'k':x[0]}; xid=p[1]+x[1]
    else: rule='role:%(nokey)s'; tgt={'k':x[0]}; xid=None
    if rule.endswith(')') or '%' in rule.replace('%(k)s','').replace('%(nokey)s',''): continue
    exp = xid is not None and 'roles' in creds and any(r[1]==xid for r in roles)
    E=policy.Enforcer(conf,use_conf=False); E.set_rules(policy.Rules.from_dict({'p':rule}))
    got=bool(E.enforce('p',tgt,creds)); n+=1; allow+=exp
    if got!=exp:
        bad+=1
        if bad<6: print('C04 BAD',rule,tgt,creds,got,exp)
print('C04 cases',n,'allow',allow,'bad',bad)
