# prototype C18 differential for upgrade / convert / generate / list_redundant
import logging, os, tempfile, sys, json, random, shutil, warnings, io, contextlib, copy, itertools
logging.disable(logging.CRITICAL); warnings.simplefilter('ignore')
from unittest import mock
import stevedore, yaml
from oslo_policy import policy, opts, generator
from oslo_config import cfg
import oslo_policy; print(oslo_policy.__file__)
rnd=random.Random(int(sys.argv[1]))
ROLES=['a','b','c','d']
SUBS=[[r for i,r in enumerate(ROLES) if m>>i&1] for m in range(16)]
def gen(depth):
    r=rnd.random()
    if depth<=0 or r<0.4: return rnd.choice(['role:a','role:b','role:c','role:d','@','!',"'x':%(k)s",'"x":%(k)s','rule:base'])
    if r<0.5: return 'not '+gen(depth-1)
    return '('+(' %s '%rnd.choice(['and','or'])).join(gen(depth-1) for _ in range(2))+')'
def genlist():
    return [[rnd.choice(['role:a','role:b','role:c','@']) for _ in range(rnd.randint(1,2))] for _ in range(rnd.randint(0,2))]
def mgr_for(o):
    exts=[stevedore.extension.Extension(name=n,entry_point=None,plugin=None,obj=v) for n,v in o.items()]
    return stevedore.named.NamedExtensionManager.make_test_instance(extensions=exts, namespace=list(o))
def mkdefaults():
    ds=[policy.RuleDefault('base','role:a or role:b')]
    # renamed 1-1
    dep1=policy.DeprecatedRule('old:one',gen(1),deprecated_reason='r',deprecated_since='s')
    ds.append(policy.DocumentedRuleDefault('new:one',gen(1),'d',[{'path':'/','method':'GET'}],deprecated_rule=dep1))
    # split
    dep2=policy.DeprecatedRule('old:split',gen(1),deprecated_reason='r',deprecated_since='s')
    for i in range(rnd.randint(2,3)): ds.append(policy.RuleDefault('new:split%d'%i,gen(1),deprecated_rule=dep2))
    # same-name changed default
    dep3=policy.DeprecatedRule('same:x',gen(1),deprecated_reason='r',deprecated_since='s')
    ds.append(policy.RuleDefault('same:x',gen(1),deprecated_rule=dep3))
    ds.append(policy.RuleDefault('plain:x',gen(2)))
    return ds
def mkfile(ds, allow_lists=True):
    f={}
    succ={'old:one':['new:one'],'old:split':[d.name for d in ds if d.name.startswith('new:split')]}
    for nme in ['old:one','new:one','old:split','new:split0','new:split1','same:x','plain:x','unknown:x','base']:
        if rnd.random()<0.45:
            r=rnd.random()
            f[nme]= genlist() if (allow_lists and r<0.25) else gen(2)
    # alias
    if 'old:one' in f and rnd.random()<0.3: f['old:one']='rule:new:one'
    # exclusions
    for o,ss in succ.items():
        if o in f and any(s in f for s in ss):
            for s in ss: f.pop(s,None)
    return f
def enforcer(d, main, ds, fname='policy.yaml', raw=None):
    conf=cfg.ConfigOpts(); conf([],default_config_dirs=[],default_config_files=[]); opts._register(conf)
    p=os.path.join(d,fname)
    if raw is not None: open(p,'w').write(raw)
    else: open(p,'w').write(json.dumps(main))
    conf.set_override('policy_file',p,'oslo_policy'); conf.set_override('policy_dirs',[],'oslo_policy')
    E=policy.Enforcer(conf); E.register_defaults(ds); return E
def table(E, names):
    out={}
    for n in names:
        for roles in SUBS:
            for k in ('x','y'):
                try: out[(n,tuple(roles),k)]=bool(E.enforce(n,{'k':k},{'roles':roles}))
                except Exception as ex: out[(n,tuple(roles),k)]='EXC:'+type(ex).__name__
    return out
bad=collections=0
import collections as C
cnt=C.Counter(); N=int(sys.argv[2])
for it in range(N):
    d=tempfile.mkdtemp(dir='/tmp/probe'); ds=mkdefaults(); f=mkfile(ds)
    surviving=[x.name for x in ds]+['unknown:x']
    try:
        E0=enforcer(d,f,ds,'in.json'); t0=table(E0,surviving)
        # upgrade
        for fmt in ('yaml','json'):
            out=os.path.join(d,'up.'+fmt)
            with mock.patch('stevedore.named.NamedExtensionManager', return_value=mgr_for({'ns':ds})):
                try: generator.upgrade_policy(['--policy',os.path.join(d,'in.json'),'--namespace','ns','--output-file',out,'--format',fmt],conf=cfg.ConfigOpts())
                except Exception as ex: cnt['upgrade RAISES '+type(ex).__name__]+=1; continue
            E1=enforcer(d,None,ds,'up2.'+fmt,raw=open(out).read()); t1=table(E1,surviving)
            if t1!=t0:
                cnt['upgrade DIFF']+=1
                if cnt['upgrade DIFF']<3: print('UPG',f,open(out).read(),[k for k in t0 if t0[k]!=t1[k]][:3])
            else: cnt['upgrade ok']+=1
        # convert
        out=os.path.join(d,'conv.yaml')
        with mock.patch('stevedore.named.NamedExtensionManager', return_value=mgr_for({'ns':ds})):
            try:
                generator.convert_policy_json_to_yaml(['--policy-file',os.path.join(d,'in.json'),'--namespace','ns','--output-file',out],conf=cfg.ConfigOpts())
                E2=enforcer(d,None,ds,'conv2.yaml',raw=open(out).read()); t2=table(E2,surviving)
                if t2!=t0:
                    cnt['convert DIFF']+=1
                    if cnt['convert DIFF']<3: print('CONV',f,open(out).read(),[(k,t0[k],t2[k]) for k in t0 if t0[k]!=t2[k]][:3])
                else: cnt['convert ok']+=1
            except Exception as ex: cnt['convert RAISES '+type(ex).__name__]+=1; print('CONV RAISES',ex,f) if cnt['convert RAISES '+type(ex).__name__]<3 else None
        # generator + redundant: no override under deprecated names
        f2={k:v for k,v in f.items() if k not in ('old:one','old:split')}
        E3=enforcer(d,f2,ds,'gen_in.json'); t3=table(E3,surviving)
        buf=io.StringIO()
        with mock.patch('stevedore.named.NamedExtensionManager', return_value=mgr_for({'ns':E3})), contextlib.redirect_stdout(buf):
            generator._generate_policy('ns')
        try:
            E4=enforcer(d,None,ds,'gen_out.yaml',raw=buf.getvalue()); t4=table(E4,surviving)
            if t4!=t3:
                cnt['generate DIFF']+=1
                if cnt['generate DIFF']<3: print('GEN',f2,buf.getvalue(),[(k,t3[k],t4[k]) for k in t3 if t3[k]!=t4[k]][:3])
            else: cnt['generate ok']+=1
        except Exception as ex: cnt['generate RAISES '+type(ex).__name__]+=1
        buf=io.StringIO()
        with mock.patch('stevedore.named.NamedExtensionManager', return_value=mgr_for({'ns':E3})), contextlib.redirect_stdout(buf):
            generator._list_redundant('ns')
        red=[n for n in f2 if any(l.startswith('"%s": '%n) for l in buf.getvalue().splitlines())]
        if red:
            f3={k:v for k,v in f2.items() if k not in red}
            E5=enforcer(d,f3,ds,'red.json'); t5=table(E5,surviving)
            cnt['redundant ok' if t5==t3 else 'redundant DIFF']+=1
    finally:
        shutil.rmtree(d)
print(dict(cnt))
