import logging, warnings, json, urllib.parse
logging.disable(logging.CRITICAL); warnings.simplefilter('ignore')
import requests, requests_mock
from oslo_policy import policy, opts
from oslo_config import cfg
conf = cfg.ConfigOpts(); conf([], default_config_dirs=[], default_config_files=[])
e = policy.Enforcer(conf, use_conf=False)
e.set_rules(policy.Rules.from_dict({'svc:act': 'role:a and (not role:zz and rule:h)', 'h': 'http://srv/%(name)s/check'}))
class Opaque: pass
tgt = {'name': 'n1', 'nested': {'k': [1, {'z': None}]}, 'obj': object()}
for ctype in ['application/x-www-form-urlencoded', 'application/json']:
    conf.set_override('remote_content_type', ctype, 'oslo_policy')
    for body in ['True', '"True"', '""True""', '"True', 'true', 'True\n', ' True', 'TRUE', '', 'False', 'True True', "'True'"]:
        with requests_mock.Mocker() as m:
            m.post('http://srv/n1/check', text=body, status_code=500)
            r = e.enforce('svc:act', tgt, {'roles': ['a'], 'x': 1})
            req = m.last_request
        print(ctype[-4:], repr(body), '->', r, end=' | ')
    print()
    print(req.headers.get('Content-Type'), req.text[:300])
for exc in [requests.exceptions.ConnectTimeout, requests.exceptions.ReadTimeout, requests.exceptions.ConnectionError, requests.exceptions.SSLError]:
    with requests_mock.Mocker() as m:
        m.post('http://srv/n1/check', exc=exc)
        try: print(exc.__name__, '->', e.enforce('svc:act', tgt, {'roles': ['a']}))
        except Exception as ex: print(exc.__name__, 'RAISES', type(ex).__name__, ex)
print(type(tgt['obj']), tgt['nested'])
