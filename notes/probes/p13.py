# C20 explorer, generalized schedules with EDIT action
import logging, os, tempfile, sys, json, threading, time, warnings, shutil, random, collections
logging.disable(logging.CRITICAL); warnings.simplefilter('ignore')
from oslo_policy import policy, opts
from oslo_config import cfg
import oslo_policy
from p12 import SCEN, build, apply_new, dec, PKG, mon, TOOL
SCEN['nested_mix'] = dict(old={'policy.yaml': {'a':'rule:h1 and not rule:h2','h1':'role:x','h2':'role:x'}}, new={'policy.yaml': {'a':'rule:h1 and not rule:h2','h1':'role:y','h2':'role:y'}}, defaults=[], probes=[('a',['x']),('a',['y']),('a',['x','y'])])
SCEN['no_main'] = dict(old={'pd/1.yaml': {'a':'@'}}, new={'pd/1.yaml': {'a':'@','b':'!'}}, defaults=[('c','@',None)], probes=[('a',[]),('c',[])])

class Sched:
    """threads: dict name->callable ; plan: list of (name, k or None) or ('EDIT',)"""
    def __init__(self, funcs, plan, edit):
        self.funcs=funcs; self.plan=plan; self.edit=edit
        self.counts={n:0 for n in funcs}; self.ids={}; self.res={}
        self.go={n:threading.Semaphore(0) for n in funcs}; self.back=threading.Semaphore(0)
        self.stop_at={n:None for n in funcs}; self.done={n:False for n in funcs}; self.threads={}
    def _body(self, n):
        self.ids[threading.get_ident()]=n
        self.go[n].acquire()
        try: self.res[n]=self.funcs[n]()
        finally:
            self.done[n]=True; del self.ids[threading.get_ident()]; self.back.release()
    def on_line(self, code, line):
        if not code.co_filename.startswith(PKG): return mon.DISABLE
        n=self.ids.get(threading.get_ident())
        if n is None: return
        self.counts[n]+=1
        if self.stop_at[n] is not None and self.counts[n]==self.stop_at[n]:
            self.stop_at[n]=None
            self.back.release(); self.go[n].acquire()
    def run(self):
        mon.use_tool_id(TOOL,'p13'); mon.register_callback(TOOL, mon.events.LINE, self.on_line); mon.set_events(TOOL, mon.events.LINE)
        try:
            mon.restart_events()
            for n in self.funcs:
                t=threading.Thread(target=self._body,args=(n,)); t.start(); self.threads[n]=t
            for step in self.plan:
                if step[0]=='EDIT': self.edit(); continue
                n,k=step
                if self.done[n]: continue
                self.stop_at[n]=k
                self.go[n].release(); self.back.acquire()
            for n in self.funcs:
                while not self.done[n]:
                    self.stop_at[n]=None; self.go[n].release(); self.back.acquire()
            for t in self.threads.values(): t.join()
        finally:
            mon.set_events(TOOL,0); mon.free_tool_id(TOOL)
        return self.res

def one(sc, pX, pY, plan):
    e,d=build(sc,'old')
    probes=[(p[0],tuple(p[1])) for p in sc['probes']]
    old={p:dec(e,p) for p in probes}
    s=Sched({'X':lambda:dec(e,pX),'Y':lambda:dec(e,pY)}, plan, lambda:apply_new(sc,d))
    res=s.run()
    new={p:dec(e,p) for p in probes}
    # fresh
    shutil.rmtree(d)
    return old,res,new,s.counts

if __name__=='__main__':
    name=sys.argv[1]; fam=sys.argv[2]; N=int(sys.argv[3]); sc=SCEN[name]
    probes=[(p[0],tuple(p[1])) for p in sc['probes']]
    o,r,nw,c=one(sc,probes[0],probes[0],[('EDIT',),('X',None),('Y',None)])
    nX=c['X']; nYq=c['Y']
    o,r,nw,c=one(sc,probes[0],probes[0],[('Y',None),('EDIT',),('X',None)])
    nY0=c['Y']
    print(name,fam,'events X(reload)',nX,'Y(after)',nYq,'Y(old quiescent)',nY0,'old',o,'new',nw)
    rnd=random.Random(7); classes=collections.Counter(); t0=time.time()
    for i in range(N):
        pX=rnd.choice(probes); pY=rnd.choice(probes)
        if fam=='C': plan=[('Y',rnd.randint(1,nY0)),('EDIT',),('X',None),('Y',None)]
        elif fam=='D': plan=[('Y',rnd.randint(1,nY0)),('EDIT',),('X',rnd.randint(1,nX)),('Y',None),('X',None)]
        elif fam=='B': plan=[('EDIT',),('X',rnd.randint(1,nX)),('Y',rnd.randint(1,nX)),('X',None),('Y',None)]
        old,res,new,_=one(sc,pX,pY,plan)
        for who,p in (('X',pX),('Y',pY)):
            rr=res.get(who)
            if rr not in (old[p],new[p]): classes[(who,p,rr,old[p],new[p])]+=1
    print(' schedules',N,'time',round(time.time()-t0,1))
    for k,v in classes.most_common(): print('  ',v,k)
