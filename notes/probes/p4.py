import logging, os, tempfile, sys, io, json, contextlib, warnings
logging.disable(logging.CRITICAL)
warnings.simplefilter('ignore')
from unittest import mock
import stevedore
from oslo_policy import _parser, _checks, policy, opts, generator
from oslo_config import cfg

def mgr_for(objs_by_name):
    exts = [stevedore.extension.Extension(name=n, entry_point=None, plugin=None, obj=o) for n, o in objs_by_name.items()]
    return stevedore.named.NamedExtensionManager.make_test_instance(extensions=exts, namespace=list(objs_by_name))

def run_upgrade(defaults, filetext, fmt='yaml'):
    d = tempfile.mkdtemp(dir='/tmp/probe')
    p = os.path.join(d, 'in.yaml'); open(p, 'w').write(filetext)
    out = os.path.join(d, 'out.'+fmt)
    conf = cfg.ConfigOpts()
    with mock.patch('stevedore.named.NamedExtensionManager', return_value=mgr_for({'ns': defaults})):
        generator.upgrade_policy(['--policy', p, '--namespace', 'ns', '--output-file', out, '--format', fmt], conf=conf)
    return open(out).read()

def run_convert(defaults, filejson):
    d = tempfile.mkdtemp(dir='/tmp/probe')
    p = os.path.join(d, 'in.json'); open(p, 'w').write(json.dumps(filejson))
    out = os.path.join(d, 'out.yaml')
    conf = cfg.ConfigOpts()
    with mock.patch('stevedore.named.NamedExtensionManager', return_value=mgr_for({'ns': defaults})):
        generator.convert_policy_json_to_yaml(['--policy-file', p, '--namespace', 'ns', '--output-file', out], conf=conf)
    return open(out).read()

dep = policy.DeprecatedRule('old', 'role:o', deprecated_reason='r', deprecated_since='s')
defs = [policy.DocumentedRuleDefault('new1', 'role:n1', 'd', [{'path':'/','method':'GET'}], deprecated_rule=dep),
        policy.DocumentedRuleDefault('new2', 'role:n2', 'd', [{'path':'/','method':'GET'}], deprecated_rule=dep),
        policy.RuleDefault('plain', 'role:p')]
print('--- upgrade split')
try:
    print(run_upgrade(defs, '"old": "role:custom"\n'))
except Exception as e:
    print('RAISES', type(e).__name__, e)
print('--- upgrade alias')
try:
    print(run_upgrade(defs[:1]+defs[2:], '"old": "rule:new1"\n'))
except Exception as e:
    print('RAISES', type(e).__name__, e)
print('--- upgrade list-of-lists')
print(run_upgrade(defs[:1]+defs[2:], json.dumps({"old": [["role:a", "role:b"], ["role:c"]], "x": []})))
print('--- convert list-of-lists, quotes')
print(run_convert(defs[:1]+defs[2:], {"plain": [["role:a", "role:b"], ["role:c"]], "new1": "\"abc\":%(x)s or role:n1", "unk": [["role:z"]], "unk2": "\"q\":%(x)s", "unk3": ""}))
print('--- convert variants of default')
print(run_convert(defs[:1]+defs[2:], {"plain": "( role:p )", "new1": "role:n1"}))
