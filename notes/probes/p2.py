import logging, traceback, os, tempfile, time
logging.disable(logging.CRITICAL)
from oslo_policy import _parser, _checks, policy
from oslo_config import cfg

def mk(rules_text=None, dirs=None):
    d = tempfile.mkdtemp(dir='/tmp/probe')
    conf = cfg.ConfigOpts()
    conf([], default_config_dirs=[], default_config_files=[])
    from oslo_policy import opts
    opts._register(conf)
    conf.set_override('policy_file', os.path.join(d,'policy.yaml'), group='oslo_policy')
    conf.set_override('policy_dirs', [], group='oslo_policy')
    if rules_text is not None:
        open(os.path.join(d,'policy.yaml'),'w').write(rules_text)
    return policy.Enforcer(conf), d

for txt in ['"a": "not"', '"a": "\\"abc\\""', '"a":', '"a": false', '"a": no', '"a": {"@": 1}', '"a": 5', '"a": ~']:
    e, d = mk(txt)
    try:
        print(repr(txt), '->', e.enforce('a', {}, {'roles': []}))
    except Exception as ex:
        print(repr(txt), 'RAISES', type(ex).__name__, ex)

# C10: delete main file after first load
e, d = mk('"a": "role:x"')
print(e.enforce('a', {}, {'roles':['x']}))
os.unlink(os.path.join(d,'policy.yaml'))
try:
    print(e.enforce('a', {}, {'roles':['x']}))
except Exception as ex:
    print('after delete RAISES', type(ex).__name__, ex)

# C14
e, d = mk('"a": "class:x"\n"b": "1+:x"\n"c": "a.0:x"\n"d": "u.v:x"\n"e": "{[1]}:x"\n"f": "u.v.w:x"\n"g": "u:%(t)s"')
for n, creds in [('a',{}),('b',{}),('c',{}),('d',{'u':'str'}),('d',{'u':5}),('d',{'u':None}),('d',{'u':[1]}),('d',{'u':[[{'v':'x'}]]}),('e',{}),('f',{'u':{'v':'s'}}), ('d',{'u':['v']}), ('g', {'u': [['a']]}), ('d', {'u': {'v': ['x']}}), ('d', {'u': {'v': [['x']]}})]:
    try:
        print(n, creds, '->', e.enforce(n, {'t': "['a']"}, dict(creds, roles=[])))
    except Exception as ex:
        print(n, creds, 'RAISES', type(ex).__name__, ex)
