# prototype C09: file selection table + layering order
import logging, os, tempfile, sys, json, random, shutil, warnings, itertools, copy
logging.disable(logging.CRITICAL); warnings.simplefilter('ignore')
from oslo_policy import policy, opts
from oslo_config import cfg
import yaml
PRISTINE = copy.deepcopy(opts._options)
bad=0; n=0
HOW=['default','setdef_yaml','setdef_other','cfgfile_yaml','cfgfile_other','override_yaml','override_other']
for how, ex_yaml, ex_json, ex_other, fallback, explicit in itertools.product(HOW,[0,1],[0,1],[0,1],[True,False],[None,'explicit.yaml']):
    opts._options = copy.deepcopy(PRISTINE)
    d=tempfile.mkdtemp(dir='/tmp/probe')
    for fn,ex in (('policy.yaml',ex_yaml),('policy.json',ex_json),('other.yaml',ex_other),('explicit.yaml',1)):
        if ex: open(d+'/'+fn,'w').write(json.dumps({'which':'role:'+fn.replace('.','_')}))
    conf=cfg.ConfigOpts()
    args=['--config-dir',d]
    if how.startswith('cfgfile'):
        open(d+'/svc.conf','w').write('[oslo_policy]\npolicy_file=%s\npolicy_dirs=\n' % ('policy.yaml' if how.endswith('yaml') else 'other.yaml'))
    conf(args, default_config_dirs=[], default_config_files=[])
    opts._register(conf)
    if how=='setdef_yaml': opts.set_defaults(conf, policy_file='policy.yaml')
    if how=='setdef_other': opts.set_defaults(conf, policy_file='other.yaml')
    if how=='override_yaml': conf.set_override('policy_file','policy.yaml','oslo_policy')
    if how=='override_other': conf.set_override('policy_file','other.yaml','oslo_policy')
    conf.set_override('policy_dirs',[],'oslo_policy')
    E=policy.Enforcer(conf, policy_file=explicit, fallback_to_json_file=fallback)
    value = 'other.yaml' if how.endswith('other') else 'policy.yaml'
    configured = how not in ('default','setdef_yaml','setdef_other')
    if explicit: exp=explicit
    elif (not configured) and value=='policy.yaml' and not ex_yaml and ex_json and fallback: exp='policy.json'
    else: exp=value
    exists={'policy.yaml':ex_yaml,'policy.json':ex_json,'other.yaml':ex_other,'explicit.yaml':1}[exp]
    got=[fn for fn in ('policy.yaml','policy.json','other.yaml','explicit.yaml') if E.enforce('which',{}, {'roles':[fn.replace('.','_')]})]
    expd=[exp] if exists else []
    n+=1
    if got!=expd:
        bad+=1; print('BAD',how,ex_yaml,ex_json,ex_other,fallback,explicit,'got',got,'exp',expd, E.policy_file)
    shutil.rmtree(d)
opts._options = copy.deepcopy(PRISTINE)
print('file-pick rows',n,'bad',bad)

# layering
rnd=random.Random(3); bad=0; n=0
for it in range(400):
    d=tempfile.mkdtemp(dir='/tmp/probe')
    names=['n1','n2','n3']
    layers=[]  # (layer-id, path or 'default')
    dirs=['d1','d2','dmissing','d3']
    filesets={'d1':['B.yaml','a.yaml','a10.json','a2.yaml','.hidden.yaml'],'d2':['z.json','Z.yaml'],'d3':['m.yaml']}
    order=[('default',None),('main','policy.yaml')]
    for dd in dirs:
        if dd=='dmissing': continue
        os.mkdir(d+'/'+dd)
        os.mkdir(d+'/'+dd+'/sub')
        for fn in sorted(filesets[dd]):
            order.append((dd+'/'+fn, dd+'/'+fn))
    present=[o for o in order if rnd.random()<0.6]
    content={o[0]:{} for o in present}
    expected={}
    # define names per layer
    for lid,_ in order:
        if (lid,_) not in present: continue
        for nme in names:
            if rnd.random()<0.5:
                content[lid][nme]='role:'+lid.replace('/','_').replace('.','_')
    eff={}
    for lid,p in order:
        if lid not in content: continue
        if p and os.path.basename(p).startswith('.'): continue
        for nme,cs in content[lid].items(): eff[nme]=cs
    # sub dir file always defines everything (must be ignored)
    open(d+'/d1/sub/x.yaml','w').write(json.dumps({nme:'role:SUB' for nme in names}))
    wl=[(lid,p) for lid,p in present if p]
    rnd.shuffle(wl)
    for lid,p in wl:
        txt = json.dumps(content[lid]) if (p.endswith('.json') or rnd.random()<0.5) else yaml.safe_dump(content[lid]) if content[lid] else ''
        open(d+'/'+p,'w').write(txt)
    conf=cfg.ConfigOpts(); conf([],default_config_dirs=[],default_config_files=[]); opts._register(conf)
    conf.set_override('policy_file',d+'/policy.yaml','oslo_policy'); conf.set_override('policy_dirs',[d+'/'+x for x in dirs],'oslo_policy')
    E=policy.Enforcer(conf)
    if 'default' in content:
        for nme,cs in content['default'].items(): E.register_default(policy.RuleDefault(nme,cs))
    allroles=set(cs.split(':',1)[1] for c in content.values() for cs in c.values())|{'SUB'}
    for nme in names:
        for r in allroles:
            got=bool(E.enforce(nme,{}, {'roles':[r]})); exp=(eff.get(nme)=='role:'+r); n+=1
            if got!=exp: bad+=1; print('LAYER BAD',nme,r,got,exp,content) if bad<5 else None
    shutil.rmtree(d)
print('layer decisions',n,'bad',bad)
