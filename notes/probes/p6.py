import random, warnings, yaml, json, sys
warnings.simplefilter('ignore')
from oslo_policy import generator, policy
rnd = random.Random(1)
alpha = ['a','b','Z',' ','  ','\n','\n\n','\t','#',':','"',"'",'-','|','>','%','{','}','[',']',',','&','*','!','@','`','\r','\r\n','é','ß','日','😀',' ',' ','\x85','x'*80,'\\','?', '- ', ': ', ' #', '---', '...', ' ', '　', '\x0b', '\x0c', '\x1c', '\x1d', '\x1e']
def txt(n):
    return ''.join(rnd.choice(alpha) for _ in range(rnd.randint(0,n)))
bad = 0
seen = 0
for i in range(20000):
    desc = txt(12); reason = txt(8)
    kind = rnd.randint(0,3)
    name = 'svc:act%d' % i; cs = rnd.choice(["role:a", "'x':%(y)s or role:b", "", "@", "rule:z and not role:q"])
    try:
        if kind == 0:
            d = policy.RuleDefault(name, cs, description=desc or None)
        elif kind == 1:
            d = policy.DocumentedRuleDefault(name, cs, desc or 'd', [{'path': '/p/{id}#x', 'method': 'GET'}], scope_types=['system','project'])
        elif kind == 2:
            d = policy.RuleDefault(name, cs, description=desc, deprecated_for_removal=True, deprecated_reason=reason, deprecated_since='1.0 (x)')
        else:
            dep = policy.DeprecatedRule('old:%d' % i, "role:o", deprecated_reason=reason or 'r', deprecated_since='S')
            d = policy.RuleDefault(name, cs, description=desc, deprecated_rule=dep)
    except Exception as e:
        continue
    for excl in (False, True):
        out = ''.join(generator._sort_and_format_by_section({'s': [d]}, exclude_deprecated=excl))
        seen += 1
        # every nonblank line must be a comment
        for ln in out.split('\n'):
            if ln.strip() and not ln.startswith('#'):
                bad += 1
                if bad < 8: print('BREAKOUT', repr(desc), repr(reason), repr(ln))
                break
        else:
            try:
                y = yaml.safe_load(out)
                assert y is None, y
                un = '\n'.join(l[1:] if l.startswith('#"') else l for l in out.split('\n'))
                y2 = yaml.safe_load(un)
                assert y2 == {name: cs}, (y2,)
            except Exception as e:
                bad += 1
                if bad < 8: print('FAIL', type(e).__name__, str(e)[:200], repr(desc), repr(reason))
print('seen', seen, 'bad', bad)
