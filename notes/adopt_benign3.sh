#!/bin/sh
# third round of behaviour-preserving refactorings: /tmp/benign3/<n>/{patch.diff,notes.md} -> /verif/benign/<n>/
cd /verif
for n in ${NUMS:-18 19 20 21 22 23}; do
  src=/tmp/benign3/$n
  [ -f $src/patch.diff ] && [ -f $src/notes.md ] || { echo "skip $n (not there)"; continue; }
  [ -d benign/$n ] && continue
  git -C /repo apply --check $src/patch.diff 2>/dev/null || { echo "REJECT $n: patch does not apply to /repo HEAD"; continue; }
  mkdir -p benign/$n
  cp $src/patch.diff $src/notes.md benign/$n/
  theme=$(grep -m1 -i '^theme:' $src/notes.md | sed 's/^[Tt]heme: *//' | tr ' ' '-' | cut -c1-120)
  /venv/bin/python - "$n" "$theme" <<'PY'
import json, sys
n, theme = sys.argv[1], sys.argv[2]
json.dump({"theme": theme or 'see-notes', "round": 3,
           "origin": "independent sub-agent asked for a behaviour-preserving refactoring (all twenty properties must still hold); it was given the property texts and its own scratch worktree, nothing from /verif",
           "expectation": "every check exits 0"}, open('/verif/benign/%s/meta.json' % n, 'w'), indent=1)
PY
  echo "adopted benign/$n: $theme ($(grep -c '^[+-]' benign/$n/patch.diff) changed lines)"
done
