#!/bin/sh
mkdir -p /tmp/seed-out3
cd /repo
for i in 01 02 03 04 05 06 07 08 09 10 11 12 13 14 15 16 17 18 19 20; do
  git worktree add -q --detach /tmp/wt3-C$i HEAD
  cp /tmp/seed-out/C$i.prop.txt /tmp/seed-out3/C$i.prop.txt
  {
    echo "Changes already tried for this property (do NOT repeat these mechanisms or code sites; find different ones):"
    for v in a b c d; do
      echo "--- earlier change $v:"
      /venv/bin/python - "$i" "$v" <<'EOF'
import json, sys
i, v = sys.argv[1], sys.argv[2]
try:
    m = json.load(open('/verif/seeded/C%s-%s/meta.json' % (i, v)))
    print('needs:', m['needs'])
    print(open('/verif/seeded/C%s-%s/notes.md' % (i, v)).read()[:700])
except Exception as e:
    print('(none)')
EOF
    done
  } > /tmp/seed-out3/C$i.avoid.txt
done
sed 's#/tmp/wt2-<ID>#/tmp/wt3-<ID>#g; s#/tmp/seed-out2/#/tmp/seed-out3/#g' /tmp/seed-out2/INSTRUCTIONS.txt > /tmp/seed-out3/INSTRUCTIONS.txt
cat >> /tmp/seed-out3/INSTRUCTIONS.txt <<'EOF'

THIRD ROUND: four changes per property have been tried already (see the avoid file). Be inventive: look at code paths the earlier changes did not touch (other functions, other files, option handling, error branches, caching of configuration, type coercions, iteration order, copy vs reference, early returns), at inputs at the edge of the property's stated domain, and at sequences of three or more operations. One of your two changes should involve at least two cooperating edits. Also note: /root/.condarc is corrupt in this sandbox, so every shell command prints a long conda traceback first - ignore it (pipe output through `tail`), and never try to repair that file.
EOF
git worktree list | wc -l
