"""Round 4 bookkeeping: write caught_by / first_run / strengthening into seeded/*-g, *-h meta.json from selftest_seeded.json."""
import glob
import json
import os

res = {r['id']: r for r in json.load(open('/verif/selftest_seeded.json'))}
S = {
 'C02-n': 'C02 word lists: compatibility look-alikes of @ / ! / the keywords / a check (full-width, small forms) as one-token rules and fragments',
 'C03-m': 'C03 stratum `assigned_store`: stores built by from_dict / load / load_json without (or with) a default-rule argument, assigned to enforcer.rules',
 'C03-n': 'C03 `policy_dirs` stratum with symbolic links: linked files, links into other directories, linked directories (files.Tree.symlink)',
 'C05-m': 'C05 placeholder keys that are not identifiers (%(t.1)s, %(target.user.id)s, %(os:t)s); the harness regex had the same \\w+ slip',
 'C08-m': 'C08 stratum `placeholders`: check strings and policy names with %(...)s and braces, targets that make them allow / deny, scope mismatch with enforcement off',
 'C08-n': 'C08 stratum `route`: enforce_scope set through set_default, opts.set_defaults (alone / with policy_file) and a config file',
 'C09-m': 'C09 strata RX / R: file layers that restate the registered default (verbatim and as textual variants) before / between / after differing layers',
 'C09-n': 'C09: policy_dirs / policy_file configured through set_default and a real config file with one policy_dirs line per directory',
 'C10-m': 'C10: on every second step the freshly started enforcer looks at the files before the long-lived one decides',
 'C11-n': 'C11 ORDER dimension: files read before the defaults are registered, registration in two batches around an enforce, clear() and re-use',
 'C12-m': 'C12 strata D0 / D: overwrite=False enforcers, policy directories with two / three overlapping files, touch and single-file edits',
 'C12-n': 'files.Tree: every third clock step is a fraction of a second (two versions of a file within one second)',
 'C13-n': 'C13 stratum U: unregistered names that other rules reference (alias, under not, in groups, chains), incl. the default rule name',
 'C14-m': 'C14 stratum FK: YAML keys that are not text (bool, null, int, float, date, bytes) beside normal names flagged by the same load-time report',
 'C14-n': 'C14 stratum FI: list-of-lists rules whose inner list holds elements of every JSON type, in every position, all routes',
 'C15-n': 'C15 stratum `print-overlap`: two threads print the same parsed rule and its rule set at the same time',
 'C16-m': 'C16: mixed-case roles and a role check evaluated before the remote check in the same request (wraps role-first-and / role-first-or)',
 'C17-m': 'C17 / C18: printable characters of planes 2 and 3 in names and check strings',
 'C19-m': 'C19 stratum `large-files`: 20-60 policies per file, 0..all-but-one referring to undefined aliases, with and without a default rule',
 'C20-m': 'C20 value-aware rebuild-sequence model: registered defaults on a store that still lacks the directory files, although the decider did not write into it',
 'C20-n': 'C20 store-log wrappers delegate to the library\'s own overrides (the monitor had replaced Rules.update); scenario `dir_file_two_rules`',
}
n = 0
for meta in sorted(glob.glob('/verif/seeded/*/meta.json')):
    name = os.path.basename(os.path.dirname(meta))
    if name[-1] not in "mn":
        continue
    d = json.load(open(meta))
    r = res.get('seeded-' + name)
    if not r:
        print('no result for', name)
        continue
    c = r['checks'][r['prop']]
    d['round'] = 6
    d['caught_by'] = {'check': './check %s quick' % r['prop'], 'exit': c['rc'], 'mechanism_keys': c['keys'], 'seconds': c['secs'],
                      'replay_files_reproduce_on_changed_tree_and_hold_on_unchanged': c.get('replays')}
    d['what_was_run'] = ['git apply patch.diff in a scratch worktree; repository suite (345 passed, root-only test deselected); demo.py fails; git checkout; demo.py passes',
                         'pv.selftest.run --seeded: patch applied to a scratch copy of /repo, suite re-run, ./check %s quick with VERIF_REPO=<copy> -> exit %s; every replay file re-executed against the copy (must reproduce) and against /repo (must hold)' % (r['prop'], c['rc'])]
    if name in S:
        d['first_run'] = 'MISSED by the check as it stood when the change arrived'
        d['strengthening'] = S[name]
    else:
        d['first_run'] = 'caught by the check as it stood when the change arrived'
        d.pop('strengthening', None)
    json.dump(d, open(meta, 'w'), indent=1)
    n += 1
print('updated', n)
