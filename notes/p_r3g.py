# ------------------------------------------------------------------ C14
p = '/verif/pv/props/c14.py'
s = open(p).read()
s = s.replace('''def check_case(ctx, real, case):
    policy, enf = real
    if case['kind'] == 'T':
        return check_same_target_object(ctx, real, case)''', '''def check_deleted_reference(ctx, real, case):
    """A rule that other rules reference is removed from the living rule store (del / pop): a reference that can no
    longer be resolved denies - it neither raises nor keeps deciding by the vanished definition."""
    policy, enf = real
    rules = {'adm': 'role:admin', 'op': 'rule:adm', 'op2': 'role:x or rule:adm', 'op3': 'not rule:adm', 'keep': 'role:admin'}
    creds = {'roles': ['admin']}
    enf.set_rules(policy.Rules.from_dict(rules))
    ctx.case(['deleted-reference', case['how']], nontrivial=True, stratum='D')
    first = {}
    for n in ('op', 'op2', 'op3', 'keep'):
        first[n] = bool(enf.enforce(n, {}, dict(creds)))
    if case['how'] == 'del':
        del enf.rules['adm']
    elif case['how'] == 'pop':
        enf.rules.pop('adm')
    else:
        other = policy.Enforcer(env.fresh_conf(), use_conf=False)      # the same check trees handed to a second enforcer that lacks `adm`
        other.set_rules(policy.Rules({k: v for k, v in enf.rules.items() if k != 'adm'}))
        enf = other
    want = {'op': False, 'op2': False, 'op3': True, 'keep': True}
    for n, w in want.items():
        try:
            got = bool(enf.enforce(n, {}, dict(creds)))
        except Exception as e:
            got = 'EXC:' + type(e).__name__
        ctx.count('deleted_reference_decisions')
        if got != w:
            ctx.violation('unresolvable-reference-does-not-deny' if not isinstance(got, str) else 'undocumented-exception-' + got[4:],
                          case, {'rules': rules, 'removed': 'adm', 'how': case['how'], 'enforced': n, 'expected': w, 'observed': got})
            return


def check_file_override_of_registered(ctx, real, case):
    """A policy file overrides a REGISTERED policy with a rule in the legacy list-of-lists spelling (or with a text
    rule): loading and enforcing must not raise."""
    policy, _ = real
    from pv.gen import files
    tree = files.Tree(dirs=())
    try:
        tree.write('policy.yaml', {'reg': case['value'], 'other': 'role:r'}, case['fmt'])
        enf = policy.Enforcer(tree.conf(policy_dirs=[]))
        enf.register_default(policy.RuleDefault('reg', 'role:admin'))
        ctx.case(['file-override', case['value'], case['fmt']], nontrivial=True, stratum='F')
        for creds in ({'roles': ['r']}, {'roles': ['admin', 'r']}, {'roles': []}):
            for _ in range(2):
                try:
                    enf.enforce('reg', {}, dict(creds))
                    exc = None
                except Exception as e:
                    exc = e
                ctx.count('file_override_enforce_calls')
                if exc is not None and type(exc).__name__ not in DOCUMENTED:
                    ctx.violation('undocumented-exception-' + type(exc).__name__, case,
                                  {'file_rule': case['value'], 'format': case['fmt'], 'observed': '%s: %s' % (type(exc).__name__, str(exc)[:120])})
                    return
    finally:
        tree.cleanup()


def check_case(ctx, real, case):
    policy, enf = real
    if case['kind'] == 'T':
        return check_same_target_object(ctx, real, case)
    if case['kind'] == 'D':
        return check_deleted_reference(ctx, real, case)
    if case['kind'] == 'F':
        return check_file_override_of_registered(ctx, real, case)''')
s = s.replace('''    if rnd.random() < 0.04:
        # a rule text that is not a sentence at all''', '''    if rnd.random() < 0.01:
        return dict(kind='D', how=rnd.choice(['del', 'pop', 'shared-trees']), rules={}, target={}, creds={}, do_raise=False)
    if rnd.random() < 0.01:
        return dict(kind='F', rules={}, target={}, creds={}, do_raise=False, fmt=rnd.choice(['json', 'yaml']),
                    value=rnd.choice([[['role:r']], [['role:r', 'role:admin'], ['@']], ['role:r'], [], [[]], 'role:r or role:admin',
                                      [['role:r'], 'rule:other'], 5, True, {'a': 1}, 1.5]))
    if rnd.random() < 0.04:
        # a rule text that is not a sentence at all''')
s = s.replace("MIN = {'same_target_comparisons': 500,", "MIN = {'deleted_reference_decisions': 100, 'file_override_enforce_calls': 100, 'same_target_comparisons': 500,")
s = s.replace("T = one target mapping kept by the caller", "D = a referenced rule removed from the living store (del / pop / same check trees under an enforcer that lacks it): the reference denies. F = a policy file overriding a registered policy with a list-of-lists rule. T = one target mapping kept by the caller")
open(p, 'w').write(s)

# ------------------------------------------------------------------ C15: kinds spelled in another letter case
p = '/verif/pv/props/c15.py'
s = open(p).read()
s = s.replace("          'word', 'role:%(r)s']", "          'word', 'role:%(r)s', 'Role:a', 'ROLE:b', 'Rule:h1', 'RULE:ghost', 'Http://h/yes', 'Is_admin:True', 'True:true']")
open(p, 'w').write(s)

# ------------------------------------------------------------------ C17: long rule lines; a default registered under another one's old name
p = '/verif/pv/props/c17.py'
s = open(p).read()
s = s.replace("          'tenant:%(tenant_id)s  or   role:spaced', 'rule:admin_required', 'user_id:%(user.id)s', '[role:a]', 'not @', 'role:  a']",
              "          'tenant:%(tenant_id)s  or   role:spaced', 'rule:admin_required', 'user_id:%(user.id)s', '[role:a]', 'not @', 'role:  a',\n"
              "          ' or '.join('role:member_of_group_%d' % i for i in range(9)),\n"
              "          '(role:admin and project_id:%(project_id)s) or (role:member and user_id:%(user_id)s) or rule:a_rather_long_rule_name_here',\n"
              "          'x:' + 'y' * 90 + ' or role:z', 'role:' + 'a' * 120]")
s = s.replace('''def gen_name(rnd, i):
    return 'svc%d:' % i + ''.join(rnd.choice(NAMECH) for _ in range(rnd.randint(1, 8)))''', '''def gen_name(rnd, i):
    n = 'svc%d:' % i + ''.join(rnd.choice(NAMECH) for _ in range(rnd.randint(1, 8)))
    if rnd.random() < 0.1:
        n += ':' + 'long_policy_name_segment_' * 3 + 'x'          # a name that pushes the rule line past 80 columns
    return n''')
s = s.replace('''        specs = [gen_default_spec(rnd, j) for j in range(rnd.randint(1, 6))]''', '''        specs = [gen_default_spec(rnd, j) for j in range(rnd.randint(1, 6))]
        for sp in list(specs):
            if sp['kind'] == 'renamed' and rnd.random() < 0.4:
                # the old name is itself still a registered policy, listed after the renamed one
                specs.append(dict(kind='plain', name=sp['old_name'], check=rnd.choice(CHECKS), desc=gen_text(rnd, 4), reason='', since=''))''')
open(p, 'w').write(s)

# ------------------------------------------------------------------ C19: target files that flatten to nothing
p = '/verif/pv/props/c19.py'
s = open(p).read()
s = s.replace('''        rnd.shuffle(items)                      # nested mappings before, between and after plain keys
        target = dict(items[:rnd.randint(3, len(items))])''', '''        rnd.shuffle(items)                      # nested mappings before, between and after plain keys
        target = dict(items[:rnd.randint(3, len(items))])
        if rnd.random() < 0.15:
            # a target file is given, but it holds nothing (or only empty mappings): that is an EMPTY target, not "no file"
            target = rnd.choice([{}, {'target': {'project': {}}}, {'empty': {}}, {'a': {'b': {}}}])''')
open(p, 'w').write(s)
print('r3g ok')
