#!/venv/bin/python
"""Rewrite section 11 of DESIGN.md from selftest_results.json / selftest_seeded.json / seeded/*/meta.json."""
import glob
import json
import os

HERE = os.path.dirname(os.path.abspath(__file__))
BEGIN = '<!-- BEGIN GENERATED VALIDATION TABLES -->'
END = '<!-- END GENERATED VALIDATION TABLES -->'


def main():
    own = json.load(open(os.path.join(HERE, 'selftest_results.json'))) if os.path.exists(os.path.join(HERE, 'selftest_results.json')) else []
    seeded = json.load(open(os.path.join(HERE, 'selftest_seeded.json')))
    lines = [BEGIN, '']
    lines.append('### 11.1 Independently seeded changes (`seeded/<name>/`: patch.diff, demo.py, notes.md, meta.json)')
    lines.append('')
    lines.append('| change (round) | property | needs, in order to manifest | caught by (quick tier) with mechanism keys | the check as it stood when the change arrived |')
    lines.append('|---|---|---|---|---|')
    for r in seeded:
        name = r['id'][len('seeded-'):]
        meta = json.load(open(os.path.join(HERE, 'seeded', name, 'meta.json')))
        c = r['checks'][r['prop']]
        lines.append('| %s (%s) | %s | %s | `./check %s quick` exit %s: %s | %s |' % (
            name, meta.get('round', 1), r['prop'], meta['needs'].replace('|', '/'), r['prop'], c['rc'], ', '.join(c['keys']) or '-',
            'caught' if meta['first_run'].startswith('caught') else 'missed; ' + meta['strengthening']))
    lines.append('')
    lines.append('### 11.2 Own deliberate breaks (`pv/selftest/mutants.py`)')
    lines.append('')
    lines.append('| mutant | property | what it breaks | outcome | mechanism keys |')
    lines.append('|---|---|---|---|---|')
    for r in own:
        c = r.get('checks', {}).get(r['prop'], {})
        lines.append('| %s | %s | %s | %s | %s |' % (r['id'], r['prop'], r.get('note', '').replace('|', '/'), r['verdict'] if r['verdict'] not in ('suite-kills',) else 'dropped: the repository suite notices it',
                                                   ', '.join(c.get('keys', [])) or r.get('detail', '')[:60]))
    bpath = os.path.join(HERE, 'selftest_benign.json')
    if os.path.exists(bpath):
        ben = json.load(open(bpath))
        lines.append('')
        lines.append('### 11.3 Behaviour-preserving refactorings (`benign/<n>/`): all twenty checks must stay silent')
        lines.append('')
        lines.append('| refactoring | theme | outcome over the 20 quick checks | alarms |')
        lines.append('|---|---|---|---|')
        for r in ben:
            name = r['id'][len('benign-'):]
            rcs = {p: c['rc'] for p, c in r.get('checks', {}).items()}
            lines.append('| %s | %s | %s (%d checks exit 0) | %s |' % (
                name, r.get('note', '').replace('|', '/'), r['verdict'], sum(1 for v in rcs.values() if v == 0),
                json.dumps(r.get('alarms', {})) if r.get('alarms') else '-'))
    n = {v: sum(1 for r in own if r['verdict'] == v) for v in {r['verdict'] for r in own}}
    lines.append('')
    lines.append('Totals: seeded %d (caught %d); own %s.' % (len(seeded), sum(r['verdict'] == 'caught' for r in seeded), n))
    lines.append('')
    lines.append(END)
    p = os.path.join(HERE, 'DESIGN.md')
    s = open(p).read()
    block = '\n'.join(lines)
    if BEGIN in s:
        s = s[:s.index(BEGIN)] + block + s[s.index(END) + len(END):]
    else:
        s = s.rstrip('\n') + '\n\n' + block + '\n'
    open(p, 'w').write(s)


main()
