#!/venv/bin/python
"""Regenerate MANIFEST.json from the property modules (pv/props/cNN.py)."""
import importlib
import json
import os
import sys

HERE = os.path.dirname(os.path.abspath(__file__))
sys.path.insert(0, HERE)
from pv.core import env  # noqa
env.setup()

props = [json.loads(l) for l in open(os.path.join(HERE, 'properties.jsonl'))]
checks = []
na = []
for p in props:
    pid = p['id']
    try:
        mod = importlib.import_module('pv.props.' + pid.lower())
    except ModuleNotFoundError:
        na.append({'property_id': pid, 'reason': 'check not built yet (planned in DESIGN.md section 4)'})
        continue
    checks.append({
        'property_id': pid,
        'quick_cmd': './check %s quick' % pid,
        'thorough_cmd': './check %s thorough' % pid,
        'evidence_file': 'evidence/%s.json' % pid,
        'replay_cmd_template': './check %s --replay {path}' % pid,
        'engine': 'pv',
        'level_claimed': {'category': mod.LEVEL, 'text': mod.LEVEL_TEXT,
                          'design_ref': 'DESIGN.md section 4, %s' % pid},
        'level_note': mod.LEVEL_NOTE,
        'technique': mod.TECHNIQUE,
    })
manifest = {
    'version': 1,
    'setup_cmd': 'sh ./setup.sh',
    'hooks': {
        'guard': 'OSLO_POLICY_VERIF',
        'enable': 'no source hooks in /repo: monitors are attached by the harness at run time '
                  '(sys.monitoring, wrappers, icontract contracts, requests_mock); the harness sets '
                  'OSLO_POLICY_VERIF=1 in its own processes only',
        'baseline_off_cmd': 'cd /repo && /venv/bin/python -m pytest -q -p no:cacheprovider --timeout=900 '
                            '--continue-on-collection-errors',
        'source_commits': [],
        'add_only': True,
    },
    'engines': [{
        'name': 'pv', 'path': 'pv/',
        'serves_properties': [c['property_id'] for c in checks],
        'kind_free_text': 'runtime monitoring harness: generated/enumerated workloads driven through the real '
                          'oslo_policy code imported from /repo, observed by differential, metamorphic, contract '
                          'and history monitors; deterministic line-level thread scheduler for C20',
    }],
    'checks': checks,
    'not_applicable': na,
    'notes': 'Exit codes: 0 held (KNOWN-FINDING lines allowed), 1 VIOLATION, 2 INCONCLUSIVE (never folded '
             'into held). VERIF_SEED selects the random strata; exhaustive strata do not depend on it. '
             'KNOWN_FINDINGS.txt lists genuine defects by mechanism key.',
}
with open(os.path.join(HERE, 'MANIFEST.json'), 'w') as f:
    json.dump(manifest, f, indent=1)
    f.write('\n')
print('claimed', [c['property_id'] for c in checks], 'not applicable', [n['property_id'] for n in na])
